package main

import (
	"fmt"
	"math"
	"reflect"
	"strings"

	"go.1password.io/spg"
)

// ---------------------------------------------------------------------------
// C15: calls are pure. Histories of API calls interleaved with caller-side
// field updates over a pool of long-lived recipes and word lists; every call
// gets its own tape; after each call (a) everything the caller owns is
// deep-equal to the snapshot taken before, (b) the result equals the result of
// the same call with the same tape on a fresh value built from the current
// public fields in a context where nothing else has run.
// ---------------------------------------------------------------------------

type HOp struct {
	Op    string   `json:"op"` // gen entropy alphabet sp size set knob
	T     int      `json:"t"`  // target pool entry
	Field string   `json:"field,omitempty"`
	I     int      `json:"i,omitempty"`
	S     string   `json:"s,omitempty"`
	SS    []string `json:"ss,omitempty"`
	Sep   *SepCfg  `json:"sep,omitempty"`
	F     float64  `json:"f,omitempty"`
	Idx   int      `json:"idx,omitempty"`
}

type PoolEntry struct {
	Char *CharCfg `json:"char,omitempty"`
	WL   *WLCfg   `json:"wl,omitempty"`
	Ptr  bool     `json:"ptr"` // calls go through a pointer (Generator interface holding *T)
}

type C15Spec struct {
	Pool   []PoolEntry `json:"pool"`
	Ops    []HOp       `json:"ops"`
	Orders OrderSpec   `json:"orders"`
	Seed   uint64      `json:"seed"`
}

type liveEntry struct {
	char  *spg.CharRecipe
	wl    *spg.WLRecipe
	cfgC  CharCfg
	cfgW  WLCfg
	input []string // the slice handed to NewWordList (caller-owned)
	list  *spg.WordList
	ptr   bool
}

func genHistory(r *Rng, seed uint64, tier string) *C15Spec {
	s := &C15Spec{Orders: genOrders(r, seed), Seed: seed}
	np := 1 + r.Intn(4)
	for i := 0; i < np; i++ {
		if r.Chance(0.55) {
			cc := genCharCfg(r, charOpt{small: r.Chance(0.5), budget: 5000, maxLen: 10, maxReq: 4, noEmptied: r.Chance(0.7)})
			s.Pool = append(s.Pool, PoolEntry{Char: &cc, Ptr: r.Bool()})
		} else {
			w := genWLCfg(r, wlOpt{list: listOpt{min: 1, max: 7, twins: 0.2, precap: 0.1, caseless: 0.1, dups: 0.15, emptyWord: 0.08}, maxLen: 4})
			if w.Sep.Kind == "altempty" {
				w.Sep = SepCfg{Kind: "char", Char: "-"}
			}
			s.Pool = append(s.Pool, PoolEntry{WL: &w, Ptr: r.Bool()})
		}
	}
	nops := 3 + r.Intn(18)
	if tier == "thorough" && r.Chance(0.3) {
		nops = 20 + r.Intn(21)
	}
	pool := asciiPool
	for i := 0; i < nops; i++ {
		t := r.Intn(np)
		e := s.Pool[t]
		op := HOp{T: t}
		k := r.Intn(10)
		switch {
		case k < 4:
			op.Op = "gen"
		case k < 5:
			op.Op = "entropy"
		case k < 6:
			if e.Char != nil {
				op.Op = pick(r, []string{"alphabet", "sp"})
			} else {
				op.Op = "size"
			}
		case k < 9:
			op.Op = "set"
			if e.Char != nil {
				op.Field = pick(r, []string{"Length", "Allow", "Require", "Exclude", "AllowChars", "ExcludeChars", "RequireSets", "RequireSetsElem", "Regroup", "Regroup"})
				op.I = r.Intn(32)
				if op.Field == "Length" {
					op.I = 1 + r.Intn(8)
				}
				op.S = randRunes(r, pool, 0, 4, 0.2)
				op.SS = []string{randRunes(r, pool, 1, 3, 0.2)}
				if r.Bool() {
					op.SS = append(op.SS, randRunes(r, pool, 1, 3, 0.2))
				}
				op.Idx = r.Intn(3)
			} else {
				op.Field = pick(r, []string{"Length", "Capitalize", "SeparatorChar", "SeparatorFunc"})
				op.I = 1 + r.Intn(4)
				op.S = pick(r, append(append([]string{}, capSchemes...), "-", "é", ""))
				if op.Field == "Capitalize" {
					op.S = pick(r, capSchemes)
				}
				if op.Field == "SeparatorChar" {
					op.S = pick(r, []string{"", "-", "é", "__"})
				}
				sp := genSep(r, wlOpt{})
				if sp.Kind == "altempty" {
					sp = SepCfg{Kind: "preset", Preset: "SFDigits1"}
				}
				op.Sep = &sp
			}
		default:
			op.Op = "knob"
			op.I = pick(r, []int{1, 2, 5, 200, 200, 0, -1})
			op.F = pick(r, []float64{1e-9, 1e-3, 0.5})
		}
		if op.Op == "set" && op.Field == "Regroup" {
			// evaluate, regroup into a colliding sibling, evaluate again: a memo keyed too coarsely
			// serves the first recipe's entry to the second
			s.Ops = append(s.Ops, HOp{Op: pick(r, []string{"entropy", "gen", "alphabet"}), T: t}, op,
				HOp{Op: "alphabet", T: t}, HOp{Op: "entropy", T: t}, HOp{Op: "sp", T: t}, HOp{Op: "gen", T: t})
			i += 5
			continue
		}
		s.Ops = append(s.Ops, op)
	}
	return s
}

func init() {
	register(&CheckDef{
		ID: "C15", Level: "exploration",
		Technique:   "deterministic simulation of call histories: seeded sequences of API calls and caller-side field updates on long-lived recipes and word lists, each call on its own scripted tape; deep snapshots before/after and comparison with the same call on a fresh value in isolation; whole episode executed twice",
		Rule:        "case = one API call inside a history; distinct by hash of (history prefix, call); non-trivial = the call is preceded by at least one other call or field update on the same pool",
		Assumptions: []string{"the package knobs MaxTrials/MaxFailRate count as part of the current configuration (the isolated reference call runs under the same knob values)", "stateful separator closures written by the caller are excluded (only pure ones are used)"},
		Episodes:    map[string]int{"quick": 12000, "thorough": 1200000},
		TwiceEvery:  3,
		Real:        []string{"CharRecipe/WLRecipe Generate, Entropy, Alphabet, SuccessProbability, Size", "NewWordList", "separator presets / NewSFFunction"},
		Simulated:   []string{"call history and field updates", "crypto/rand.Reader (one scripted tape per call)", "alphabet / word index orders (H2/H3), visit order (H4)"},
		Gen: func(seed uint64, tier string) interface{} {
			return genHistory(Sub(seed, "config"), seed, tier)
		},
		Decode: decodeInto[C15Spec],
		Run:    runC15,
		Shrink: func(si interface{}) []interface{} {
			s := si.(*C15Spec)
			var out []interface{}
			// drop operations (later ones first, then earlier)
			for i := len(s.Ops) - 1; i >= 0; i-- {
				n := *s
				n.Ops = append(append([]HOp{}, s.Ops[:i]...), s.Ops[i+1:]...)
				if len(n.Ops) > 0 {
					out = append(out, &n)
				}
			}
			return out
		},
	})
}

// snapshot of everything the caller owns
type snap struct {
	fields string
	rsFull []string // RequireSets including spare capacity
	input  []string
	words  []string
	uncap  int
	knobs  string
	deriv  string
}

func (e *liveEntry) snapshot() snap {
	var s snap
	if e.char != nil {
		r := e.char
		s.fields = fmt.Sprintf("%d|%d|%d|%d|%q|%q|%q", r.Length, r.Allow, r.Require, r.Exclude, r.AllowChars, r.ExcludeChars, r.RequireSets)
		if r.RequireSets != nil {
			s.rsFull = append([]string{}, r.RequireSets[:cap(r.RequireSets)]...)
		}
		s.deriv = spg.VerifDerivedState(*r)
	} else {
		r := e.wl
		fn := uintptr(0)
		if r.SeparatorFunc != nil {
			fn = reflect.ValueOf(r.SeparatorFunc).Pointer()
		}
		s.fields = fmt.Sprintf("%d|%q|%q|%x|%p", r.Length, r.SeparatorChar, r.Capitalize, fn, spg.VerifList(*r))
		s.input = append([]string{}, e.input...)
		s.words = spg.VerifWords(e.list)
		s.uncap = spg.VerifUncapCount(e.list)
	}
	s.knobs = fmt.Sprintf("%d|%g", spg.MaxTrials, spg.MaxFailRate)
	return s
}

func (a snap) diff(b snap) string {
	switch {
	case a.fields != b.fields:
		return fmt.Sprintf("public fields changed: %s -> %s", a.fields, b.fields)
	case strings.Join(a.rsFull, "\x00") != strings.Join(b.rsFull, "\x00") || len(a.rsFull) != len(b.rsFull):
		return fmt.Sprintf("the caller's RequireSets backing array changed: %q -> %q", a.rsFull, b.rsFull)
	case strings.Join(a.input, "\x00") != strings.Join(b.input, "\x00") || len(a.input) != len(b.input):
		return fmt.Sprintf("the slice given to NewWordList changed: %q -> %q", a.input, b.input)
	case strings.Join(a.words, "\x00") != strings.Join(b.words, "\x00") || len(a.words) != len(b.words):
		return fmt.Sprintf("the word list changed: %q -> %q", a.words, b.words)
	case a.uncap != b.uncap:
		return fmt.Sprintf("the word list's derived state changed: %d -> %d", a.uncap, b.uncap)
	case a.knobs != b.knobs:
		return fmt.Sprintf("package knobs changed: %s -> %s", a.knobs, b.knobs)
	}
	return ""
}

func newLive(p PoolEntry) (*liveEntry, string) {
	e := &liveEntry{ptr: p.Ptr}
	if p.Char != nil {
		e.cfgC = *p.Char
		e.cfgC.RequireSets = append([]string{}, p.Char.RequireSets...)
		r := e.cfgC.Recipe()
		// give the caller's slice spare capacity with sentinels so stray appends are visible
		if r.RequireSets != nil {
			full := make([]string, len(r.RequireSets), len(r.RequireSets)+2)
			copy(full, r.RequireSets)
			full = full[:len(r.RequireSets)+2]
			full[len(full)-2], full[len(full)-1] = "<spare1>", "<spare2>"
			r.RequireSets = full[:len(full)-2]
		}
		e.char = &r
		return e, ""
	}
	e.cfgW = *p.WL
	e.input = append([]string{}, p.WL.Words...)
	wl, err := spg.NewWordList(e.input)
	if err != nil {
		return nil, err.Error()
	}
	e.list = wl
	r := spg.NewWLRecipe(p.WL.Length, wl)
	r.Capitalize = spg.CapScheme(p.WL.Cap)
	if p.WL.Sep.Kind == "char" {
		r.SeparatorChar = p.WL.Sep.Char
	} else {
		r.SeparatorFunc = p.WL.Sep.fn()
	}
	e.wl = r
	if !p.Ptr {
		// the caller keeps a copy of the constructed recipe (variant := *base) and works with that
		v := *r
		e.wl = &v
	}
	return e, ""
}

// call performs op on the given values.
func doCall(op string, tape *Tape, char *spg.CharRecipe, wl *spg.WLRecipe, ptr bool) OpResult {
	// always call through the long-lived variable itself (a pointer to it): with value
	// receivers the library copies it per call, with pointer receivers it would share it
	var g interface{}
	if char != nil {
		g = char
	} else {
		g = wl
	}
	_ = ptr
	switch op {
	case "gen":
		return genOp(tape, g)
	case "entropy":
		return entropyOp(tape, g)
	case "alphabet":
		return under(tape, func(r *OpResult) { r.S = char.Alphabet() })
	case "sp":
		return under(tape, func(r *OpResult) { r.F = float64(char.SuccessProbability()) })
	case "size":
		return under(tape, func(r *OpResult) { r.F = float64(wl.Size()) })
	}
	return OpResult{Kind: "error", Err: "unknown op"}
}

func resultsEqual(a, b OpResult) (bool, string) {
	if a.Kind != b.Kind {
		return false, fmt.Sprintf("%s vs %s", a.brief(), b.brief())
	}
	switch a.Kind {
	case "ok":
		if (a.Pw == nil) != (b.Pw == nil) {
			return false, "password vs none"
		}
		if a.Pw != nil {
			if a.Pw.key() != b.Pw.key() {
				return false, fmt.Sprintf("passwords %q vs %q", a.Pw.S, b.Pw.S)
			}
			if math.Float32bits(a.Pw.Entropy) != math.Float32bits(b.Pw.Entropy) {
				return false, fmt.Sprintf("Password.Entropy %v vs %v", a.Pw.Entropy, b.Pw.Entropy)
			}
		}
		if math.Float64bits(a.F) != math.Float64bits(b.F) && !(math.IsNaN(a.F) && math.IsNaN(b.F)) {
			return false, fmt.Sprintf("value %v vs %v", a.F, b.F)
		}
		if a.S != b.S {
			return false, fmt.Sprintf("%q vs %q", a.S, b.S)
		}
	case "error":
		if a.Err != b.Err {
			return false, fmt.Sprintf("errors %q vs %q", a.Err, b.Err)
		}
	}
	if len(a.Tape.Served) != len(b.Tape.Served) {
		return false, fmt.Sprintf("random bytes consumed %d vs %d", len(a.Tape.Served), len(b.Tape.Served))
	}
	// diagnostics text is not part of a call's result (it may legitimately carry running counts)
	return true, ""
}

func runC15(c *Ctx, si interface{}) {
	s := si.(*C15Spec)
	curOrders = s.Orders
	oldT, oldF := spg.MaxTrials, spg.MaxFailRate
	defer func() { spg.MaxTrials, spg.MaxFailRate = oldT, oldF }()
	var live []*liveEntry
	for _, p := range s.Pool {
		e, err := newLive(p)
		if e == nil {
			c.Count("pool_entry_unbuildable", 1)
			_ = err
			return
		}
		live = append(live, e)
	}
	hist := ""
	type keptPw struct {
		p    *spg.Password
		view *PwView
		at   int
	}
	var retained []keptPw
	for i, op := range s.Ops {
		if op.T >= len(live) {
			continue
		}
		e := live[op.T]
		hist += fmt.Sprintf("%s(%d%s)%s ", op.Op, op.T, op.Field, "")
		switch op.Op {
		case "knob":
			spg.MaxTrials, spg.MaxFailRate = op.I, op.F
			c.Count("knob_changes", 1)
			continue
		case "set":
			applySet(e, op)
			c.Count("field_updates", 1)
			continue
		}
		if (op.Op == "alphabet" || op.Op == "sp") && e.char == nil {
			continue
		}
		if op.Op == "size" && e.wl == nil {
			continue
		}
		c.Eval(1)
		if i > 0 {
			c.Distinct(s.Seed, i)
		}
		// snapshots of every pool entry (a call must not touch other recipes either)
		before := make([]snap, len(live))
		for j, l := range live {
			before[j] = l.snapshot()
		}
		ts := TapeSpec{Mode: "choice", Seed: mix(s.Seed, "call", i), Default: "random"}
		res := doCall(op.Op, NewTape(ts), e.char, e.wl, e.ptr)
		c.T(res.tkey())
		if op.Op == "gen" && e.char != nil && res.Kind == "ok" && len(res.Tape.CharLists) == 0 {
			panic(sentCannotDrive) // hook H2 not reached: index order not owned
		}
		for j, l := range live {
			if d := before[j].diff(l.snapshot()); d != "" {
				c.Violate("mutation", "", "history [%s]: call %d %s on entry %d modified entry %d: %s", hist, i, op.Op, op.T, j, d)
				return
			}
		}
		// the same call, same tape, on a fresh value built from the current public fields
		var fresh *liveEntry
		if e.char != nil {
			cc := e.cfgC
			fresh, _ = newLive(PoolEntry{Char: &cc, Ptr: e.ptr})
		} else {
			w := e.cfgW
			m := mark()
			fresh, _ = newLive(PoolEntry{WL: &w, Ptr: e.ptr})
			_ = since(m)
		}
		if fresh == nil {
			c.Count("fresh_unbuildable", 1)
			continue
		}
		ref := doCall(op.Op, NewTape(ts), fresh.char, fresh.wl, e.ptr)
		if ok, why := resultsEqual(res, ref); !ok {
			c.Violate("history-dependence", "", "history [%s]: call %d %s on entry %d (%s) differs from the same call with the same random bytes on a fresh value built from the current fields: %s", hist, i, op.Op, op.T, describe(e), why)
			return
		}
		for _, k := range retained {
			if now := viewPw(k.p); now.key() != k.view.key() || now.Entropy != k.view.Entropy {
				c.Violate("returned-password-changed", "", "history [%s]: the password returned by call %d was %v and reads %v after call %d", hist, k.at, k.view.Tokens, now.Tokens, i)
				return
			}
		}
		if res.Kind == "ok" && res.P != nil {
			retained = append(retained, keptPw{res.P, res.Pw, i})
		}
		// the result must reflect the *current* fields: for character recipes the reference model
		// says what they mean (a process-wide memo would fool the fresh-value comparison too)
		if res.Kind == "ok" && e.char != nil && e.cfgC.Length >= 1 && e.cfgC.Length <= 64 {
			m := modelChar(e.cfgC)
			switch op.Op {
			case "alphabet":
				if res.S != strings.Join(m.A, "") {
					c.Violate("stale-fields", "", "history [%s]: call %d Alphabet() = %q but the current fields %s mean %q", hist, i, res.S, e.cfgC, strings.Join(m.A, ""))
					return
				}
			case "entropy":
				if len(m.A) > 0 {
					want := log2Big(m.Count())
					if !f32close(res.F, want, entTol(want)) {
						c.Violate("stale-fields", "", "history [%s]: call %d Entropy() = %v but the current fields %s give %.6f", hist, i, res.F, e.cfgC, want)
						return
					}
				}
			case "sp":
				if p := m.SuccessProb(); p != nil {
					pf := ratToFloat(p)
					if math.IsNaN(res.F) || math.Abs(res.F-pf) > 2e-4*pf+1e-7 {
						c.Violate("stale-fields", "", "history [%s]: call %d SuccessProbability() = %v but the current fields %s give %s", hist, i, res.F, e.cfgC, p.FloatString(8))
						return
					}
				}
			}
		}
		if res.Kind == "ok" && res.Pw != nil && e.char != nil {
			if ok, why := checkCharPassword(modelChar(e.cfgC), res.Pw); !ok {
				c.Violate("stale-fields", "", "history [%s]: call %d returned %q which does not honour the current fields %s: %s", hist, i, res.Pw.S, e.cfgC, why)
				return
			}
		}
	}
	c.Sample(map[string]interface{}{"pool": len(s.Pool), "history": strings.TrimSpace(hist)})
}

func describe(e *liveEntry) string {
	if e.char != nil {
		return e.cfgC.String()
	}
	return e.cfgW.String()
}

func applySet(e *liveEntry, op HOp) {
	if e.char != nil {
		r := e.char
		switch op.Field {
		case "Length":
			r.Length, e.cfgC.Length = op.I, op.I
		case "Allow":
			r.Allow, e.cfgC.Allow = spg.CTFlag(op.I), uint32(op.I)
		case "Require":
			v := op.I & (op.I >> 1) // fewer bits
			r.Require, e.cfgC.Require = spg.CTFlag(v), uint32(v)
		case "Exclude":
			v := op.I & 16
			r.Exclude, e.cfgC.Exclude = spg.CTFlag(v), uint32(v)
		case "AllowChars":
			r.AllowChars, e.cfgC.AllowChars = op.S, op.S
		case "ExcludeChars":
			r.ExcludeChars, e.cfgC.ExcludeChars = op.S, op.S
		case "RequireSets":
			r.RequireSets = append([]string{}, op.SS...)
			e.cfgC.RequireSets = append([]string{}, op.SS...)
		case "Regroup":
			// replace the recipe by a colliding sibling (same characters, different grouping)
			if sibs := charSiblings(Sub(uint64(op.I)+7, "regroup"), e.cfgC); len(sibs) > 0 {
				n := sibs[op.Idx%len(sibs)]
				r.AllowChars, e.cfgC.AllowChars = n.AllowChars, n.AllowChars
				r.ExcludeChars, e.cfgC.ExcludeChars = n.ExcludeChars, n.ExcludeChars
				r.RequireSets = append([]string{}, n.RequireSets...)
				e.cfgC.RequireSets = append([]string{}, n.RequireSets...)
			}
		case "RequireSetsElem":
			if len(r.RequireSets) > 0 {
				j := op.Idx % len(r.RequireSets)
				r.RequireSets[j] = op.S // in-place update of the caller's slice
				e.cfgC.RequireSets[j] = op.S
			}
		}
		return
	}
	r := e.wl
	switch op.Field {
	case "Length":
		r.Length, e.cfgW.Length = op.I, op.I
	case "Capitalize":
		r.Capitalize, e.cfgW.Cap = spg.CapScheme(op.S), op.S
	case "SeparatorChar":
		r.SeparatorChar = op.S
		if e.cfgW.Sep.Kind == "char" {
			e.cfgW.Sep.Char = op.S
		} else {
			// SeparatorFunc still set: SeparatorChar is ignored by the recipe but is a public field
			e.cfgW.Sep.Char = op.S
		}
	case "SeparatorFunc":
		if op.Sep != nil {
			keepChar := r.SeparatorChar
			e.cfgW.Sep = *op.Sep
			if op.Sep.Kind == "char" {
				r.SeparatorFunc = nil
				r.SeparatorChar = op.Sep.Char
			} else {
				r.SeparatorFunc = op.Sep.fn()
				e.cfgW.Sep.Char = keepChar
			}
		}
	}
}
