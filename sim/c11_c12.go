package main

import (
	"bytes"
	"fmt"
	"strings"

	"go.1password.io/spg"
)

// ---------------------------------------------------------------------------
// C11 (round trip, fault-free store) and C12 (Tokenize total under storage
// faults). The "disk" is the index bytes a client stores next to a password.
// ---------------------------------------------------------------------------

type TokB struct {
	V []byte `json:"v"`
	T int    `json:"t"`
}

type TokCase struct {
	Pw    []byte `json:"pw"`
	Index []byte `json:"index"`
	Note  string `json:"note,omitempty"`
}

type tokenizeOut struct {
	panicked string
	err      error
	toks     []Tok
	ent      float32
	str      string
	hasStr   bool
}

func callTokenize(pw string, ix []byte, ent float32) (o tokenizeOut) {
	defer func() {
		if r := recover(); r != nil {
			o.panicked = fmt.Sprint(r)
		}
	}()
	p, err := spg.Tokenize(pw, spg.Indices(ix), ent)
	o.err = err
	if err == nil {
		for _, t := range p.Tokens() {
			o.toks = append(o.toks, Tok{t.Value(), int(t.Type())})
		}
		o.ent = p.Entropy
		o.str, o.hasStr = p.String(), true
	}
	return
}

// mtokDecode is the model decoder of the documented index format.
// status: "ok", "error" (must be an error), "dontcare".
func mtokDecode(pw string, ix []byte) (toks []Tok, status string) {
	chars := runes(pw)
	if len(ix) == 0 {
		return nil, "error"
	}
	take := func(pos *int, n int) (string, bool) {
		if *pos+n > len(chars) {
			return "", false
		}
		v := strings.Join(chars[*pos:*pos+n], "")
		*pos += n
		return v, true
	}
	switch ix[0] {
	case 0:
		if len(ix) > 1 {
			return nil, "dontcare" // surplus bytes after a character-kind byte
		}
		for _, c := range chars {
			toks = append(toks, Tok{c, 1})
		}
		return toks, "ok"
	case 1, 2:
		pos := 0
		for i, l := range ix[1:] {
			v, ok := take(&pos, int(l))
			if !ok {
				return nil, "error"
			}
			t := 1
			if ix[0] == 2 && i%2 == 1 {
				t = 0
			}
			toks = append(toks, Tok{v, t})
		}
		return toks, "ok"
	case 3:
		if (len(ix)-1)%2 != 0 {
			return nil, "error" // cut in mid-pair
		}
		pos := 0
		for i := 1; i < len(ix); i += 2 {
			v, ok := take(&pos, int(ix[i]))
			if !ok {
				return nil, "error"
			}
			toks = append(toks, Tok{v, int(ix[i+1])})
		}
		return toks, "ok"
	}
	return nil, "error"
}

func toksEqual(a, b []Tok) bool {
	if len(a) != len(b) {
		return false
	}
	for i := range a {
		if a[i] != b[i] {
			return false
		}
	}
	return true
}

// checkTokenizeCase applies the C12 oracle to one stored (password, index) pair.
func checkTokenizeCase(c *Ctx, cs TokCase, ent float32) bool {
	c.Eval(1)
	pw := string(cs.Pw)
	o := callTokenize(pw, cs.Index, ent)
	c.T(o.panicked, o.err, o.toks)
	want, status := mtokDecode(pw, cs.Index)
	c.Count("tokenize_calls", 1)
	c.Count("model_"+status, 1)
	if o.panicked != "" {
		c.Violate("panic", "tokenize-panic", "Tokenize(%q, %v) panicked: %s [%s]", pw, cs.Index, o.panicked, cs.Note)
		return false
	}
	if o.err != nil {
		c.Count("tokenize_errors", 1)
		return true // an error is always an admissible answer for C12
	}
	// err == nil
	if status == "error" {
		c.Violate("accepted-malformed", "", "Tokenize(%q, %v) must be an error (malformed index) but returned tokens %v [%s]", pw, cs.Index, o.toks, cs.Note)
		return false
	}
	// structural: consecutive slices of the string
	if !strings.HasPrefix(pw, joinToks(o.toks)) {
		c.Violate("not-slices", "", "Tokenize(%q, %v): tokens %v are not consecutive slices of the string [%s]", pw, cs.Index, o.toks, cs.Note)
		return false
	}
	if o.ent != ent {
		c.Violate("entropy-changed", "", "Tokenize kept entropy %v, passed %v", o.ent, ent)
		return false
	}
	// the Password that carries the tokens has no text of its own: what it prints is what its tokens
	// spell (for an index that covers only a prefix of the string, only that prefix)
	if o.hasStr && o.str != joinToks(o.toks) {
		c.Violate("fake-text", "string-not-tokens", "Tokenize(%q, %v): the returned Password prints %q but its tokens spell %q [%s]", pw, cs.Index, o.str, joinToks(o.toks), cs.Note)
		return false
	}
	if status == "ok" && !toksEqual(o.toks, want) {
		c.Violate("wrong-tokens", "", "Tokenize(%q, %v) = %v, the index specifies %v [%s]", pw, cs.Index, o.toks, want, cs.Note)
		return false
	}
	return true
}

// storage fault plan applied to one stored record
func storageFaults(c *Ctx, pw []byte, ix []byte, r *Rng, full bool) []TokCase {
	var out []TokCase
	add := func(p, i []byte, note string) {
		out = append(out, TokCase{append([]byte{}, p...), append([]byte{}, i...), note})
		c.Fault(strings.SplitN(note, " ", 2)[0], 1)
	}
	add(pw, ix, "intact")
	for l := 0; l < len(ix); l++ {
		add(pw, ix[:l], "truncate-index")
	}
	nb := len(ix) * 8
	for b := 0; b < nb; b++ {
		if !full && nb > 64 && r.Intn(nb) >= 64 {
			continue
		}
		m := append([]byte{}, ix...)
		m[b/8] ^= 1 << uint(b%8)
		add(pw, m, "bitflip")
	}
	if len(ix) > 0 {
		for k := 0; k < 256; k++ {
			if !full && k > 8 && r.Intn(8) != 0 {
				continue
			}
			m := append([]byte{}, ix...)
			m[0] = byte(k)
			add(pw, m, "kindbyte")
		}
	}
	for p := 0; p < len(ix); p++ {
		m := append(append([]byte{}, ix[:p]...), ix[p+1:]...)
		add(pw, m, "drop-byte")
		d := append(append(append([]byte{}, ix[:p+1]...), ix[p]), ix[p+1:]...)
		add(pw, d, "dup-byte")
		if p+1 < len(ix) {
			s := append([]byte{}, ix...)
			s[p], s[p+1] = s[p+1], s[p]
			add(pw, s, "swap-bytes")
		}
	}
	for k := 1; k <= 3; k++ {
		g := append([]byte{}, ix...)
		for j := 0; j < k; j++ {
			g = append(g, byte(r.Intn(256)))
		}
		add(pw, g, "garbage-suffix")
	}
	// password faults
	chars := runes(string(pw))
	for l := 0; l < len(chars); l++ {
		if !full && len(chars) > 12 && r.Intn(len(chars)) >= 12 {
			continue
		}
		add([]byte(strings.Join(chars[:l], "")), ix, "truncate-password")
	}
	add(append(append([]byte{}, pw...), "xé"...), ix, "extend-password")
	add(append(append([]byte{}, pw...), 0xff, 0xc3), ix, "invalid-utf8-suffix")
	if len(pw) > 1 {
		cut := 1 + r.Intn(len(pw)-1)
		add(pw[:cut], ix, "byte-truncate-password") // may split a multi-byte character
		m := append([]byte{}, pw...)
		m[r.Intn(len(m))] = 0x80 | byte(r.Intn(0x40))
		add(m, ix, "invalid-utf8-inside")
	}
	// seeded multi-fault combinations
	for k := 0; k < 6; k++ {
		m := append([]byte{}, ix...)
		nf := 2 + r.Intn(3)
		for j := 0; j < nf && len(m) > 0; j++ {
			switch r.Intn(3) {
			case 0:
				m[r.Intn(len(m))] ^= 1 << uint(r.Intn(8))
			case 1:
				p := r.Intn(len(m))
				m = append(m[:p], m[p+1:]...)
			case 2:
				m = append(m, byte(r.Intn(256)))
			}
		}
		add(pw, m, "multi-fault")
	}
	return out
}

type C12Spec struct {
	Mode      string    `json:"mode"` // record | freeform | cases
	Toks      []TokB    `json:"toks,omitempty"`
	FaultSeed uint64    `json:"fault_seed"`
	Full      bool      `json:"full"`
	Cases     []TokCase `json:"cases,omitempty"`
	Ent       float32   `json:"ent"`
}

var tokValuePool = [][]string{
	{"a", "b", "z", "Q", "7", "-", "é", "λ", "正", "💩", "́"},
}

func genTokB(r *Rng, nmax int) []TokB {
	n := 1 + r.Intn(nmax)
	shape := r.Intn(7)
	var out []TokB
	for i := 0; i < n; i++ {
		l := 1 + r.Intn(3)
		if shape == 0 {
			l = 1
		}
		if r.Chance(0.03) {
			l = 253 + r.Intn(3) // 253..255 characters
		}
		var v strings.Builder
		for j := 0; j < l; j++ {
			v.WriteString(pick(r, tokValuePool[0]))
		}
		t := 1
		switch shape {
		case 0, 1: // all atoms
		case 2: // alternating
			if i%2 == 1 {
				t = 0
			}
		case 3: // random atom/separator
			t = r.Intn(2)
		case 4: // other types too
			t = pick(r, []int{0, 1, 1, 2, 7, 255})
		case 5, 6: // alternating, then one type flipped (often the last)
			if i%2 == 1 {
				t = 0
			}
		}
		out = append(out, TokB{[]byte(v.String()), t})
	}
	if shape >= 5 && len(out) > 0 {
		if len(out)%2 == 0 {
			out = append(out, TokB{[]byte("z"), 1})
		}
		j := len(out) - 1
		if shape == 6 {
			j = r.Intn(len(out))
		}
		out[j].T = 1 - out[j].T
	}
	if shape == 2 && len(out)%2 == 0 {
		out = out[:len(out)-1]
		if len(out) == 0 {
			out = []TokB{{[]byte("a"), 1}}
		}
	}
	return out
}

// modelIndex encodes a token sequence per the documented format (M-tok encoder).
func modelIndex(ts []Tok) []byte {
	k := mtokKind(ts)
	ix := []byte{byte(k)}
	switch k {
	case 0:
	case 1, 2:
		for _, t := range ts {
			ix = append(ix, byte(charLen(t.V)))
		}
	default:
		for _, t := range ts {
			ix = append(ix, byte(charLen(t.V)), byte(t.T))
		}
	}
	return ix
}

func tokBtoTok(in []TokB) []Tok {
	var out []Tok
	for _, t := range in {
		out = append(out, Tok{string(t.V), t.T})
	}
	return out
}

func init() {
	register(&CheckDef{
		ID: "C12", Level: "fault_enumeration",
		Technique:   "deterministic simulation of the client-side index store with storage-fault enumeration (every truncation, single-bit flip, kind byte, byte drop/dup/swap per sampled record) plus seeded multi-fault and free-form search; model decoder as oracle",
		Rule:        "case = one (password bytes, index bytes) pair handed to Tokenize after a storage fault; distinct by hash of the pair; non-trivial = the pair differs from the intact record or is free-form",
		Assumptions: []string{"a character is an element of strings.Split(s, \"\") (the unit the API documents)", "surplus bytes after a character-kind byte are unspecified (don't-care)"},
		Episodes:    map[string]int{"quick": 4800, "thorough": 1200000},
		TwiceEvery:  7,
		Real:        []string{"spg.Tokenize", "strings.Split/Join (std)"},
		Simulated:   []string{"the byte store holding the index next to the password (truncation, bit flips, byte drop/dup/swap, garbage, kind byte), password truncation/extension/invalid UTF-8"},
		Gen: func(seed uint64, tier string) interface{} {
			r := Sub(seed, "config")
			s := &C12Spec{FaultSeed: mix(seed, "faults"), Full: tier == "thorough" || r.Chance(0.3), Ent: float32(r.Intn(1000)) / 8}
			if r.Chance(0.25) {
				s.Mode = "freeform"
			} else {
				s.Mode = "record"
				s.Toks = genTokB(r, 6)
			}
			return s
		},
		Decode: decodeInto[C12Spec],
		Run: func(c *Ctx, si interface{}) {
			s := si.(*C12Spec)
			r := Sub(s.FaultSeed, "faults")
			var cases []TokCase
			switch s.Mode {
			case "cases":
				cases = s.Cases
			case "record":
				ts := tokBtoTok(s.Toks)
				pw := []byte(joinToks(ts))
				ix := modelIndex(ts)
				cases = storageFaults(c, pw, ix, r, s.Full)
			case "freeform":
				for k := 0; k < 400; k++ {
					pl := r.Intn(41)
					var pw []byte
					for len(runes(string(pw))) < pl {
						if r.Chance(0.05) {
							pw = append(pw, byte(0x80+r.Intn(0x80)))
						} else {
							pw = append(pw, pick(r, tokValuePool[0])...)
						}
					}
					il := r.Intn(41)
					ix := make([]byte, il)
					for j := range ix {
						switch r.Intn(4) {
						case 0:
							ix[j] = byte(r.Intn(256))
						default:
							ix[j] = byte(r.Intn(5))
						}
					}
					if il > 0 && r.Chance(0.8) {
						ix[0] = byte(r.Intn(5))
					}
					cases = append(cases, TokCase{pw, ix, "freeform"})
					c.Fault("freeform", 1)
				}
			}
			for _, cs := range cases {
				if cs.Note != "intact" {
					c.Distinct(string(cs.Pw), string(cs.Index))
				}
				if !checkTokenizeCase(c, cs, s.Ent) {
					c.Narrow(&C12Spec{Mode: "cases", Cases: []TokCase{cs}, Ent: s.Ent})
					if len(c.violations) > 5 {
						return
					}
				}
			}
			if len(cases) > 0 {
				c.Sample(map[string]interface{}{"password": string(cases[len(cases)/2].Pw), "index": []int(bytesToInts(cases[len(cases)/2].Index)), "fault": cases[len(cases)/2].Note})
			}
		},
		Shrink: func(si interface{}) []interface{} {
			s := si.(*C12Spec)
			if s.Mode != "cases" || len(s.Cases) != 1 {
				return nil
			}
			cs := s.Cases[0]
			var out []interface{}
			mk := func(pw, ix []byte) {
				out = append(out, &C12Spec{Mode: "cases", Ent: s.Ent, Cases: []TokCase{{append([]byte{}, pw...), append([]byte{}, ix...), cs.Note}}})
			}
			if len(cs.Pw) > 0 {
				mk(cs.Pw[:len(cs.Pw)-1], cs.Index)
				mk(cs.Pw[1:], cs.Index)
			}
			for p := 1; p < len(cs.Index); p++ {
				mk(cs.Pw, append(append([]byte{}, cs.Index[:p]...), cs.Index[p+1:]...))
			}
			for p := range cs.Index {
				if cs.Index[p] > 1 {
					m := append([]byte{}, cs.Index...)
					m[p]--
					mk(cs.Pw, m)
				}
			}
			for p := range cs.Pw {
				if cs.Pw[p] != 'a' {
					m := append([]byte{}, cs.Pw...)
					m[p] = 'a'
					if !bytes.Equal(m, cs.Pw) {
						mk(m, cs.Index)
					}
				}
			}
			return out
		},
	})
}

func bytesToInts(b []byte) []int {
	out := make([]int, len(b))
	for i, x := range b {
		out[i] = int(x)
	}
	return out
}

// ---------------------------------------------------------------------------
// C11
// ---------------------------------------------------------------------------

type C11Spec struct {
	Kind   string    `json:"kind"` // char | wl | synth | long
	Char   *CharCfg  `json:"char,omitempty"`
	WL     *WLCfg    `json:"wl,omitempty"`
	Tape   TapeSpec  `json:"tape"`
	Orders OrderSpec `json:"orders"`
	Synth  []TokB    `json:"synth,omitempty"`
	N      int       `json:"n"`
}

// roundTrip applies the C11 oracle to one password (real tokens from the public API).
func roundTrip(c *Ctx, p *spg.Password, origin string) bool {
	c.Eval(1)
	ts := viewPw(p).Tokens
	maxLen, minLen := 0, 1<<30
	for _, t := range ts {
		l := charLen(t.V)
		if l > maxLen {
			maxLen = l
		}
		if l < minLen {
			minLen = l
		}
	}
	if len(ts) == 0 || minLen == 0 {
		c.Count("dontcare_zero_length_token", 1)
		return true
	}
	var ix spg.Indices
	var err error
	pan := ""
	func() {
		defer func() {
			if r := recover(); r != nil {
				pan = fmt.Sprint(r)
			}
		}()
		ix, err = p.Tokens().MakeIndices()
	}()
	c.T(pan, err, []byte(ix))
	if pan != "" {
		c.Violate("makeindices-panic", "", "MakeIndices panicked on %v: %s (%s)", ts, pan, origin)
		return false
	}
	nonASCII := false
	for _, t := range ts {
		if len(t.V) != charLen(t.V) {
			nonASCII = true
		}
	}
	keySuffix := ""
	if nonASCII {
		keySuffix = "-multibyte"
		c.Probe("multibyte_token_sequences", 1)
	}
	if maxLen > 255 {
		c.Probe("token_over_255_chars", 1)
		if err == nil {
			c.Violate("lossy-index", "", "MakeIndices returned an index %v for a token of %d characters instead of an error (%s)", []byte(ix), maxLen, origin)
			return false
		}
		return true
	}
	if maxLen >= 254 {
		c.Probe("token_254_or_255_chars", 1)
	}
	if err != nil {
		c.Violate("encode-error", "encode-error"+keySuffix, "MakeIndices failed for tokens of 1..255 characters %v: %v (%s)", brief(ts), err, origin)
		return false
	}
	if want := mtokIndexLen(ts); len(ix) != want {
		c.Violate("index-size", "index-size"+keySuffix, "index for %v has %d bytes %v, documented size is %d (kind %d) (%s)", brief(ts), len(ix), []byte(ix), want, mtokKind(ts), origin)
		return false
	}
	o := callTokenize(p.String(), ix, p.Entropy)
	c.T(o.panicked, o.err, o.toks)
	if o.panicked != "" || o.err != nil {
		c.Violate("roundtrip-fails", "roundtrip-fails"+keySuffix, "Tokenize(String(), MakeIndices()) of %v (index %v) failed: %v %s (%s)", brief(ts), []byte(ix), o.err, o.panicked, origin)
		return false
	}
	if !toksEqual(o.toks, ts) || (o.ent != p.Entropy && !(o.ent != o.ent && p.Entropy != p.Entropy)) {
		c.Violate("roundtrip-differs", "roundtrip-differs"+keySuffix, "round trip of %v gave %v (entropy %v -> %v) (%s)", brief(ts), brief(o.toks), p.Entropy, o.ent, origin)
		return false
	}
	c.Count("kind_"+fmt.Sprint(mtokKind(ts)), 1)
	// an index handed out earlier must not change when later indices are made
	for _, k := range heldIndices {
		if !bytes.Equal(k.live, k.copy) {
			c.Violate("index-changed-later", "", "an index returned earlier by MakeIndices was %v and reads %v after a later MakeIndices call (%s)", k.copy, []byte(k.live), origin)
			heldIndices = nil
			return false
		}
	}
	if len(heldIndices) < 6 {
		heldIndices = append(heldIndices, heldIndex{ix, append([]byte{}, ix...)})
	} else {
		heldIndices[int(p.Entropy*7)%6&7%6] = heldIndex{ix, append([]byte{}, ix...)}
	}
	return true
}

type heldIndex struct {
	live spg.Indices
	copy []byte
}

var heldIndices []heldIndex

func brief(ts []Tok) string {
	s := fmt.Sprint(ts)
	if len(s) > 300 {
		return s[:300] + "..."
	}
	return s
}

// buildViaTokenize constructs an arbitrary token sequence through the public API.
func buildViaTokenize(ts []Tok, ent float32) (*spg.Password, error) {
	ix := []byte{3}
	for _, t := range ts {
		ix = append(ix, byte(charLen(t.V)), byte(t.T))
	}
	p, err := spg.Tokenize(joinToks(ts), ix, ent)
	if err != nil {
		return nil, err
	}
	return &p, nil
}

func init() {
	register(&CheckDef{
		ID: "C11", Level: "exploration",
		Technique:   "deterministic simulation (fault-free configuration of the simulated index store): every password produced by seeded simulated generations and every token sequence built through Tokenize is written and read back",
		Rule:        "case = one token sequence (from a simulated generation or built through Tokenize) encoded with MakeIndices and decoded with Tokenize; distinct by hash of the typed token sequence; non-trivial = at least one token of more than one character or a non-atom token or a multi-byte character",
		Assumptions: []string{"a character is an element of strings.Split(s, \"\")", "zero-length tokens are outside the property (don't-care)", "token sequences with arbitrary types are obtained through Tokenize with a full index, the only public constructor besides Generate"},
		Episodes:    map[string]int{"quick": 12000, "thorough": 6400000},
		TwiceEvery:  5,
		Real:        []string{"spg.Tokens.MakeIndices/Kind", "spg.Tokenize", "CharRecipe.Generate", "WLRecipe.Generate", "NewWordList"},
		Simulated:   []string{"crypto/rand.Reader (seeded tape)", "alphabet/word index order (H2/H3)", "index byte store (no faults in this check)"},
		Gen: func(seed uint64, tier string) interface{} {
			r := Sub(seed, "config")
			s := &C11Spec{N: 4, Tape: TapeSpec{Mode: "choice", Seed: mix(seed, "tape"), Default: "bias"}, Orders: genOrders(r, seed)}
			switch k := r.Intn(13); {
			case k < 3:
				s.Kind = "char"
				cc := genCharCfg(r, charOpt{maxLen: 12, maxReq: 4, noEmptied: r.Chance(0.7)})
				if r.Chance(0.5) { // non-ASCII alphabet only
					cc = genCharCfg(r, charOpt{maxLen: 12, maxReq: 3, taint: true, noEmptied: r.Chance(0.7)})
				}
				s.Char = &cc
			case k < 7:
				s.Kind = "wl"
				w := genWLCfg(r, wlOpt{list: listOpt{min: 1, max: 8, twins: 0.2, precap: 0.1, caseless: 0.15, dups: 0.1}, maxLen: 5, taint: r.Chance(0.4)})
				s.WL = &w
			case k < 8:
				s.Kind = "long"
				// a word list with words of 254, 255, 256 and 300 characters
				base := pick(r, []string{"a", "é", "正"})
				w := WLCfg{Words: []string{strings.Repeat(base, 254), strings.Repeat(base, 255) + "", strings.Repeat(base, 256), "x" + strings.Repeat(base, 299)}, Length: 1 + r.Intn(2), Cap: "none", Sep: SepCfg{Kind: "char", Char: pick(r, []string{"", "-", "é"})}}
				s.WL = &w
				s.N = 8
			default:
				s.Kind = "synth"
				s.Synth = genTokB(r, 7)
			}
			return s
		},
		Decode: decodeInto[C11Spec],
		Run: func(c *Ctx, si interface{}) {
			s := si.(*C11Spec)
			curOrders = s.Orders
			heldIndices = nil
			switch s.Kind {
			case "synth":
				ts := tokBtoTok(s.Synth)
				p, err := buildViaTokenize(ts, 12.5)
				if err != nil {
					c.Violate("roundtrip-fails", "construct-fails", "Tokenize with a well-formed full index for %v failed: %v", brief(ts), err)
					return
				}
				if !toksEqual(viewPw(p).Tokens, ts) {
					c.Violate("roundtrip-differs", "construct-differs", "Tokenize with a well-formed full index for %v built %v", brief(ts), brief(viewPw(p).Tokens))
					return
				}
				c.Distinct(tokKey(ts))
				roundTrip(c, p, "built through Tokenize")
				c.Sample(map[string]interface{}{"tokens": ts})
			case "char":
				rec := s.Char.Recipe()
				for k := 0; k < s.N; k++ {
					ts := s.Tape
					ts.Seed = mix(s.Tape.Seed, k)
					res := genOp(NewTape(ts), rec)
					c.T(res.tkey())
					if res.Kind != "ok" {
						c.Count("generation_"+res.Kind, 1)
						continue
					}
					c.Count("generations", 1)
					pw := res.P
					if len(res.Pw.S) != charLen(res.Pw.S) {
						c.Distinct(res.Pw.key())
					}
					if !roundTrip(c, pw, "CharRecipe"+s.Char.String()) {
						return
					}
					if k == 0 {
						c.Sample(map[string]interface{}{"recipe": s.Char.String(), "password": res.Pw.S})
					}
				}
			case "wl", "long":
				b := s.WL.build()
				if b.List == nil {
					c.Count("list_refused", 1)
					return
				}
				for k := 0; k < s.N; k++ {
					ts := s.Tape
					ts.Seed = mix(s.Tape.Seed, k)
					res := genOp(NewTape(ts), b.Recipe)
					c.T(res.tkey())
					if res.Kind != "ok" {
						c.Count("generation_"+res.Kind, 1)
						continue
					}
					c.Count("generations", 1)
					pw := res.P
					c.Distinct(res.Pw.key())
					if !roundTrip(c, pw, "WLRecipe"+s.WL.String()) {
						return
					}
					if k == 0 && s.Kind == "wl" {
						c.Sample(map[string]interface{}{"recipe": s.WL.String(), "password": res.Pw.S})
					}
				}
			}
		},
		Shrink: func(si interface{}) []interface{} {
			s := si.(*C11Spec)
			var out []interface{}
			if s.Kind == "synth" {
				for i := range s.Synth {
					n := *s
					n.Synth = append(append([]TokB{}, s.Synth[:i]...), s.Synth[i+1:]...)
					if len(n.Synth) > 0 {
						out = append(out, &n)
					}
				}
				for i := range s.Synth {
					if cl := runes(string(s.Synth[i].V)); len(cl) > 1 {
						n := *s
						n.Synth = append([]TokB{}, s.Synth...)
						n.Synth[i] = TokB{[]byte(strings.Join(cl[:len(cl)-1], "")), s.Synth[i].T}
						out = append(out, &n)
					}
				}
				return out
			}
			if s.N > 1 {
				n := *s
				n.N = 1
				out = append(out, &n)
			}
			if s.WL != nil {
				for i := range s.WL.Words {
					if len(s.WL.Words) > 1 {
						n := *s
						w := *s.WL
						w.Words = append(append([]string{}, s.WL.Words[:i]...), s.WL.Words[i+1:]...)
						n.WL = &w
						out = append(out, &n)
					}
				}
				if s.WL.Length > 1 {
					n := *s
					w := *s.WL
					w.Length--
					n.WL = &w
					out = append(out, &n)
				}
			}
			if s.Char != nil && s.Char.Length > 1 {
				n := *s
				cc := *s.Char
				cc.Length--
				n.Char = &cc
				out = append(out, &n)
			}
			return out
		},
	})
}

func genOrders(r *Rng, seed uint64) OrderSpec {
	return OrderSpec{Chars: pick(r, []string{"sorted", "reverse", "perm", "perm"}), Words: pick(r, []string{"sorted", "reverse", "perm", "perm"}), Visit: pick(r, []string{"sorted", "reverse", "perm", "twinfirst", "twinlast"}), Seed: mix(seed, "order")}
}
