package main

import (
	"crypto/rand"
	"encoding/binary"
	"encoding/json"
	"fmt"
	"math"
	"os"
	"os/exec"
	"path/filepath"
	"runtime"
	"sort"
	"strconv"
	"strings"
	"sync/atomic"
	"syscall"
	"time"
	"unsafe"

	"go.1password.io/spg"
)

// ---------------------------------------------------------------------------
// C01: bounded draws are exactly uniform.
//  step 1/2 (workers): seeded search over bounds x boundary tapes with
//    model-free checks and M-draw as a fast filter;
//  step 3 (parent): exact count over all 2^32 first words for a seed-chosen
//    set of bounds plus every bound the filter escalated.
// ---------------------------------------------------------------------------

type C01Spec struct {
	N     uint32     `json:"n"`
	Tapes [][]uint32 `json:"tapes,omitempty"`
	Seed  uint64     `json:"seed"`
	Exact bool       `json:"exact,omitempty"` // replay of an exact count over all 2^32 raw words
	// API-level draws: the pick of a word / character inside Generate (Length 1), observed through the public API
	APIChar *CharCfg `json:"api_char,omitempty"`
	APIWL   *WLCfg   `json:"api_wl,omitempty"`
}

var shippedSizes = []uint32{uint32(len(spg.AgileWords)), uint32(len(spg.AgileSyllables)), 26, 52, 62, 68, 10, 6, 7, 61, 16, 58}

func genBound(r *Rng) uint32 {
	switch r.Intn(12) {
	case 0:
		return uint32(1 + r.Intn(3))
	case 1:
		return 1 << uint(r.Intn(32))
	case 2:
		k := uint(1 + r.Intn(31))
		return 1<<k + 1
	case 3:
		k := uint(2 + r.Intn(30))
		return 1<<k - 1
	case 4:
		return pick(r, shippedSizes)
	case 5:
		return 1<<31 + 1 + uint32(r.Intn(1000)) // maximal rejection rate
	case 6:
		return math.MaxUint32 - uint32(r.Intn(3))
	case 7:
		return uint32(2 + r.Intn(300))
	case 8:
		return uint32(3) * (1 << uint(r.Intn(30)))
	case 9:
		return 1<<31 + uint32(r.U64()%(1<<31))
	}
	n := r.U32()
	if n == 0 {
		n = 1
	}
	return n
}

type drawObs struct {
	res      uint32
	words    int // 32-bit words consumed
	bytes    int
	outcome  string // ok | panic
	panicMsg string
	consumed []uint32 // the raw words actually consumed
}

func observeDraw(n uint32, words []uint32) drawObs {
	// after the scripted words the tape continues with seeded random words (no particular word,
	// not even 0, may be assumed to be accepted: a sampler may reject the low end of the range)
	t := NewTape(TapeSpec{Mode: "raw", Words: words, Default: "random", Seed: 0xc01})
	t.limit = 8192
	var o drawObs
	func() {
		defer func() {
			if r := recover(); r != nil {
				if s, ok := r.(sentinel); ok && s == sentRunaway {
					o.outcome = "runaway"
					return
				}
				o.outcome = "panic"
				o.panicMsg = fmt.Sprint(r)
			}
		}()
		prev := simr.cur
		simr.cur = t
		defer func() { simr.cur = prev }()
		t0 := time.Now().UnixNano()
		atomic.StoreInt64(&opClock.start, t0) // "selection terminates": a spinning draw is a hang
		defer opDone(t0)
		o.res = spg.VerifRandomUint32n(n)
		o.outcome = "ok"
	}()
	o.bytes = len(t.Served)
	o.words = (len(t.Served) + 3) / 4
	o.consumed = wordsOf(t.Served)
	return o
}

func init() {
	register(&CheckDef{
		ID: "C01", Level: "exploration",
		Technique:   "deterministic simulation on a scripted random tape: seeded search over bounds x boundary tapes (range, consumption, memorylessness after rejection), with exact counting over all 2^32 raw words for seed-chosen and escalated bounds as adjudicator",
		Rule:        "case = one bounded draw (bound n, tape of raw 32-bit words); distinct by hash of (n, tape); non-trivial = n >= 2. Exact counts: one case per (bound, 2^32 words), reported under exact_counts",
		Assumptions: []string{"the raw word is the 4 bytes read from crypto/rand.Reader (go1.23.5: rand.Read = io.ReadFull(Reader, b))", "exact counts are exhaustive over the raw word only for the bounds listed in exact_counts; all other bounds rest on the seeded boundary search"},
		Episodes:    map[string]int{"quick": 4000, "thorough": 800000},
		TwiceEvery:  11,
		Real:        []string{"spg.randomUint32n / randomUint32 (through the verif-tagged export)", "crypto/rand.Read, io.ReadFull (std)"},
		Simulated:   []string{"crypto/rand.Reader (scripted tape of raw words)"},
		Gen: func(seed uint64, tier string) interface{} {
			r := Sub(seed, "config")
			if r.Chance(0.15) {
				s := &C01Spec{Seed: seed}
				{ // word picks only: a wordlist Generate of Length 1 costs ~1 us, a character Generate 30-600 us,
					// which would put the 2^32-word adjudication beyond any budget
					w := WLCfg{Words: genWords(r, listOpt{min: 2, max: 12, twins: 0.3, precap: 0.1, caseless: 0.1, dups: 0.4}), Length: 1, Cap: "none", Sep: SepCfg{Kind: "char", Char: ""}}
					if r.Chance(0.3) {
						w = WLCfg{Words: []string{"ka"}, Length: pick(r, []int{3, 5, 6, 7, 9, 10}), Cap: "one", Sep: SepCfg{Kind: "char", Char: ""}}
					}
					s.APIWL = &w
				}
				return s
			}
			s := &C01Spec{N: genBound(r), Seed: seed}
			n := s.N
			top := uint32(math.MaxUint32 - math.MaxUint32%n)
			boundary := []uint32{0, n - 1, n, top - 1, top, top + 1, math.MaxUint32, math.MaxUint32 - 1, n / 2, 2*n - 1, 2 * n}
			rejectedLike := []uint32{top, math.MaxUint32, top + (math.MaxUint32-top)/2}
			for k := 0; k < 24; k++ {
				var tp []uint32
				pre := 0
				if r.Chance(0.5) {
					pre = 1 + r.Intn(5)
				}
				if r.Chance(0.2) {
					// long runs of rejected words: "every continuation of the stream after a rejected value"
					pre = pick(r, []int{8, 16, 23, 24, 25, 26, 31, 32, 33, 63, 64, 65, 100, 127, 128, 129, 200, 255, 256, 257, 500, 1000})
				}
				for j := 0; j < pre; j++ {
					tp = append(tp, pick(r, rejectedLike))
				}
				switch r.Intn(3) {
				case 0:
					tp = append(tp, pick(r, boundary))
				case 1:
					tp = append(tp, biasedWord(r, n))
				default:
					tp = append(tp, r.U32())
				}
				s.Tapes = append(s.Tapes, tp)
			}
			return s
		},
		Decode: decodeInto[C01Spec],
		Run: func(c *Ctx, si interface{}) {
			s := si.(*C01Spec)
			n := s.N
			if s.APIChar != nil || s.APIWL != nil {
				runC01API(c, s)
				return
			}
			if s.Exact {
				if _, trouble := exactCount(c, n, "replay"); trouble != "" {
					c.Trouble("exact count n=%d: %s", n, trouble)
				}
				return
			}
			for ti, tp := range s.Tapes {
				c.Eval(1)
				if n >= 2 {
					c.Distinct(fmt.Sprint(n, tp))
				}
				o := observeDraw(n, tp)
				c.T(o.res, o.words, o.outcome)
				c.Count("draws", 1)
				one := func() *C01Spec { return &C01Spec{N: n, Tapes: [][]uint32{tp}, Seed: s.Seed} }
				if o.outcome != "ok" {
					c.Violate("draw-aborted", "", "bounded draw n=%d on tape %v: %s %s (selection must terminate)", n, tp, o.outcome, o.panicMsg)
					c.Narrow(one())
					continue
				}
				if o.res >= n {
					c.Violate("out-of-range", "", "bounded draw n=%d on tape %v returned %d", n, tp, o.res)
					c.Narrow(one())
					continue
				}
				if n == 1 {
					continue
				}
				if o.bytes%4 != 0 || o.words < 1 {
					c.Violate("partial-word", "", "bounded draw n=%d consumed %d bytes: not whole 32-bit words", n, o.bytes)
					c.Narrow(one())
					continue
				}
				if o.words > 1 {
					c.Probe("raw_word_rejected", int64(o.words-1))
				}
				// the words actually consumed (tape words, then zero default)
				cons := o.consumed
				last := cons[o.words-1]
				// memorylessness: the accepted word alone gives the same result
				a := observeDraw(n, []uint32{last})
				if a.outcome != "ok" || a.words != 1 || a.res != o.res {
					c.Violate("not-memoryless", "", "n=%d: after rejected prefix %v the word %#x gave %d, alone it gives %d (words consumed %d): a redraw must not depend on what was rejected", n, cons[:o.words-1], last, o.res, a.res, a.words)
					c.Narrow(one())
					continue
				}
				// each rejected word alone is rejected too
				for _, w := range cons[:o.words-1] {
					b := observeDraw(n, []uint32{w})
					if b.outcome == "ok" && b.words == 1 {
						c.Violate("rejection-unstable", "", "n=%d: word %#x was rejected inside tape %v but accepted alone", n, w, tp)
						c.Narrow(one())
					}
				}
				// the same words delivered one byte at a time give the same draw
				if ti%4 == 0 {
					tc := NewTape(TapeSpec{Mode: "raw", Words: cons, Default: "random", Seed: 0xc01, Chunk: "one"})
					tc.limit = 8192
					cres := under(tc, func(r *OpResult) { r.F = float64(spg.VerifRandomUint32n(n)) })
					c.Fault("chunk-one-byte-reads", 1)
					if cres.Kind != "ok" {
						c.Count("aborted_on_one_byte_reads", 1) // failing closed on short reads is accepted
					} else if uint32(cres.F) != o.res || len(tc.Served) != o.bytes {
						c.Violate("chunking-changes-draw", "", "n=%d tape %v: delivered whole the draw gives %d (%d bytes), delivered one byte per read it gives %s (%d bytes)", n, tp, o.res, o.bytes, cres.brief(), len(tc.Served))
						c.Narrow(one())
						continue
					}
				}
				// fast filter against M-draw; disagreement escalates to exact counting
				for i, w := range cons {
					mr, macc := mdraw(n, w)
					acc := i == o.words-1
					if macc != acc || (acc && mr != o.res) {
						c.Count("filter_disagreements", 1)
						if !c.quiet {
							c.st.Counters[fmt.Sprintf("escalate:%d", n)]++
						}
						break
					}
				}
				if ti == 0 {
					c.Sample(map[string]interface{}{"n": n, "tape_words": tp, "result": o.res, "words_consumed": o.words})
				}
			}
		},
		ParentExtra: c01Exact,
	})
}

// ---------------------------------------------------------------------------
// exact counting
// ---------------------------------------------------------------------------

type countResult struct {
	N          uint32 `json:"n"`
	Lo, Hi     uint64
	Accepted   uint64 `json:"accepted"`
	Rejected   uint64 `json:"rejected"`
	OutOfRange uint64 `json:"out_of_range"`
	Overflow   uint64 `json:"overflow"`
	Panics     uint64 `json:"panics"`
	FirstBad   string `json:"first_bad,omitempty"`
}

type fastReader struct {
	word   uint32
	reads  int
	cont   uint32 // served right after the word
	target int    // index of the read that gets the word (0: the first read); other reads get a varying sequence
}

func (f *fastReader) Read(p []byte) (int, error) {
	if len(p) != 4 {
		// unusual read size: serve big-endian bytes of the word, zero beyond
		var b [4]byte
		if f.reads == f.target {
			binary.BigEndian.PutUint32(b[:], f.word)
		} else {
			binary.BigEndian.PutUint32(b[:], f.cont)
		}
		f.reads++
		n := copy(p, b[:])
		for i := n; i < len(p); i++ {
			p[i] = 0
		}
		return len(p), nil
	}
	if f.reads == f.target {
		binary.BigEndian.PutUint32(p, f.word)
	} else {
		if f.reads > 256+f.target {
			panic(sentRunaway)
		}
		// continuation after a rejected word: the given word, then a varying sequence
		// (no fixed word may be assumed to be accepted); reads before the target read get the
		// varying sequence too
		w := f.cont
		if f.reads != f.target+1 {
			x := uint64(f.word)*0x9e3779b97f4a7c15 + uint64(f.reads)
			w = uint32(splitmix64(&x) >> 32)
		}
		binary.BigEndian.PutUint32(p, w)
	}
	f.reads++
	return 4, nil
}

// countChildMain: simcheck count-child <n> <lo> <hi> <mmapfile> <width> <cont>
func countChildMain(args []string) int {
	n64, _ := strconv.ParseUint(args[0], 10, 32)
	lo, _ := strconv.ParseUint(args[1], 10, 64)
	hi, _ := strconv.ParseUint(args[2], 10, 64)
	width, _ := strconv.Atoi(args[4])
	cont64, _ := strconv.ParseUint(args[5], 10, 32)
	n := uint32(n64)
	var mem []byte
	var words []uint32
	var local []uint32
	if width == 0 {
		local = make([]uint32, n)
	} else {
		f, err := os.OpenFile(args[3], os.O_RDWR, 0600)
		if err != nil {
			fmt.Println(err)
			return 2
		}
		st, _ := f.Stat()
		mem, err = syscall.Mmap(int(f.Fd()), 0, int(st.Size()), syscall.PROT_READ|syscall.PROT_WRITE, syscall.MAP_SHARED)
		if err != nil {
			fmt.Println("mmap:", err)
			return 2
		}
		words = unsafe.Slice((*uint32)(unsafe.Pointer(&mem[0])), len(mem)/4)
	}
	fr := &fastReader{cont: uint32(cont64)}
	rand.Reader = fr
	res := countResult{N: n, Lo: lo, Hi: hi}
	for v := lo; v < hi; v++ {
		fr.word = uint32(v)
		fr.reads = 0
		var r uint32
		ok := func() (ok bool) {
			defer func() {
				if e := recover(); e != nil {
					ok = false
				}
			}()
			r = spg.VerifRandomUint32n(n)
			return true
		}()
		if !ok {
			res.Panics++
			if res.FirstBad == "" {
				res.FirstBad = fmt.Sprintf("word %#x: panic", v)
			}
			continue
		}
		if fr.reads != 1 {
			res.Rejected++
			continue
		}
		res.Accepted++
		if r >= n {
			res.OutOfRange++
			if res.FirstBad == "" {
				res.FirstBad = fmt.Sprintf("word %#x -> %d >= n", v, r)
			}
			continue
		}
		switch width {
		case 0:
			local[r]++
		case 32:
			atomic.AddUint32(&words[r], 1)
		case 8:
			idx := r >> 2
			sh := (r & 3) * 8
			for {
				old := atomic.LoadUint32(&words[idx])
				if (old>>sh)&0xff == 0xff {
					res.Overflow++
					break
				}
				if atomic.CompareAndSwapUint32(&words[idx], old, old+1<<sh) {
					break
				}
			}
		}
	}
	if width == 0 {
		buf := make([]byte, 4*len(local))
		for i, v := range local {
			binary.LittleEndian.PutUint32(buf[4*i:], v)
		}
		if err := os.WriteFile(fmt.Sprintf("%s.%d", args[3], lo), buf, 0600); err != nil {
			fmt.Println(err)
			return 2
		}
	} else {
		syscall.Munmap(mem)
	}
	b, _ := json.Marshal(res)
	fmt.Println(string(b))
	return 0
}

type exactSummary struct {
	N        uint32  `json:"n"`
	Accepted uint64  `json:"accepted_words"`
	Rejected uint64  `json:"rejected_words"`
	PerAlt   uint64  `json:"words_per_alternative"`
	Uniform  bool    `json:"uniform"`
	Reason   string  `json:"why_chosen"`
	WallS    float64 `json:"wall_s"`
}

func exactCount(c *Ctx, n uint32, why string) (sum exactSummary, trouble string) {
	sum = exactSummary{N: n, Reason: why}
	c.vspec = &C01Spec{N: n, Exact: true}
	defer func() { c.vspec = nil }()
	width := 32
	size := int64(n) * 4
	if n > 1<<24 {
		width = 8
		size = (int64(n) + 3) / 4 * 4
	}
	if n <= 1<<22 {
		width = 0 // private histogram per child, summed by the parent (no cross-process contention)
	}
	dir := "/dev/shm"
	if st, err := os.Stat(dir); err != nil || !st.IsDir() {
		dir = c.scratch
	}
	f, err := os.CreateTemp(dir, "verif-c01-count-")
	if err != nil {
		return sum, err.Error()
	}
	defer os.Remove(f.Name())
	if err := f.Truncate(size); err != nil {
		return sum, err.Error()
	}
	f.Close()
	// a word known to be accepted, for continuing after a rejected first word
	installOnce()
	cont := probeWord(n, 0)
	W := runtime.NumCPU()
	if W > 16 {
		W = 16
	}
	exe, _ := os.Executable()
	type out struct {
		res countResult
		err string
	}
	ch := make(chan out, W)
	total := uint64(1) << 32
	for w := 0; w < W; w++ {
		lo := total / uint64(W) * uint64(w)
		hi := total / uint64(W) * uint64(w+1)
		if w == W-1 {
			hi = total
		}
		go func(lo, hi uint64) {
			cmd := exec.Command(exe, "count-child", fmt.Sprint(n), fmt.Sprint(lo), fmt.Sprint(hi), f.Name(), fmt.Sprint(width), fmt.Sprint(cont))
			cmd.Env = append(os.Environ(), "GOMAXPROCS=1")
			b, err := cmd.Output()
			var o out
			if err != nil {
				o.err = fmt.Sprintf("count child: %v: %s", err, tail(string(b), 500))
			} else if e := json.Unmarshal(b, &o.res); e != nil {
				o.err = "count child output: " + e.Error() + ": " + tail(string(b), 300)
			}
			ch <- o
		}(lo, hi)
	}
	var tot countResult
	var hist []uint64
	if width == 0 {
		hist = make([]uint64, n)
	}
	for w := 0; w < W; w++ {
		o := <-ch
		if o.err != "" {
			trouble = o.err
			continue
		}
		if width == 0 {
			name := fmt.Sprintf("%s.%d", f.Name(), o.res.Lo)
			buf, err := os.ReadFile(name)
			os.Remove(name)
			if err != nil || len(buf) != 4*int(n) {
				trouble = fmt.Sprintf("count child histogram: %v (len %d)", err, len(buf))
				continue
			}
			for i := range hist {
				hist[i] += uint64(binary.LittleEndian.Uint32(buf[4*i:]))
			}
		}
		tot.Accepted += o.res.Accepted
		tot.Rejected += o.res.Rejected
		tot.OutOfRange += o.res.OutOfRange
		tot.Overflow += o.res.Overflow
		tot.Panics += o.res.Panics
		if tot.FirstBad == "" {
			tot.FirstBad = o.res.FirstBad
		}
	}
	if trouble != "" {
		return sum, trouble
	}
	sum.Accepted, sum.Rejected = tot.Accepted, tot.Rejected
	key := fmt.Sprintf("n=%d", n)
	if tot.Panics > 0 {
		c.Violate("exact-count", "exact-panic", "%s: %d raw words make the draw panic (%s)", key, tot.Panics, tot.FirstBad)
		return sum, ""
	}
	if tot.OutOfRange > 0 {
		c.Violate("exact-count", "exact-out-of-range", "%s: %d raw words give a result outside [0,n) (%s)", key, tot.OutOfRange, tot.FirstBad)
		return sum, ""
	}
	if tot.Accepted <= 1<<31 {
		c.Violate("exact-count", "exact-acceptance", "%s: only %d of 2^32 raw words are accepted (must be more than half)", key, tot.Accepted)
		return sum, ""
	}
	// scan the histogram
	ff, err := os.Open(f.Name())
	if err != nil {
		return sum, err.Error()
	}
	defer ff.Close()
	mem, err := syscall.Mmap(int(ff.Fd()), 0, int(size), syscall.PROT_READ, syscall.MAP_SHARED)
	if err != nil {
		return sum, "mmap: " + err.Error()
	}
	defer syscall.Munmap(mem)
	var minC, maxC uint64 = math.MaxUint64, 0
	var minI, maxI uint32
	for i := uint32(0); ; i++ {
		var v uint64
		if width == 0 {
			v = hist[i]
		} else if width == 32 {
			v = uint64(binary.LittleEndian.Uint32(mem[int64(i)*4:]))
		} else {
			v = uint64(mem[i])
		}
		if v < minC {
			minC, minI = v, i
		}
		if v > maxC {
			maxC, maxI = v, i
		}
		if i == n-1 {
			break
		}
	}
	sum.PerAlt = minC
	if tot.Overflow > 0 || minC != maxC {
		c.Violate("exact-count", "exact-not-uniform", "%s: alternatives are not selected by the same number of raw words: alternative %d by %d words, alternative %d by %d words (accepted %d, rejected %d)", key, minI, minC, maxI, maxC, tot.Accepted, tot.Rejected)
		return sum, ""
	}
	if minC*uint64(n) != tot.Accepted {
		return sum, fmt.Sprintf("%s: histogram total %d != accepted %d (harness inconsistency)", key, minC*uint64(n), tot.Accepted)
	}
	sum.Uniform = true
	return sum, ""
}

var installed bool

func installOnce() {
	if !installed {
		installSimulator()
		installed = true
	}
}

func c01Exact(c *Ctx, tier string, seed uint64) {
	r := Sub(seed, "exact-bounds")
	type job struct {
		n   uint32
		why string
	}
	var jobs []job
	// escalated bounds first
	var esc []string
	for k := range c.st.Counters {
		if len(k) > 9 && k[:9] == "escalate:" {
			esc = append(esc, k)
		}
	}
	// at most four escalated bounds: the three smallest and the largest (a change that reroutes a
	// whole class of bounds makes the filter disagree for many harmless ones)
	var escN []uint32
	for _, k := range esc {
		n, _ := strconv.ParseUint(k[9:], 10, 32)
		escN = append(escN, uint32(n))
	}
	sort.Slice(escN, func(i, j int) bool { return escN[i] < escN[j] })
	if len(escN) > 4 {
		escN = append(escN[:3:3], escN[len(escN)-1])
	}
	for _, n := range escN {
		jobs = append(jobs, job{n, "escalated: the model filter disagreed with the code for this bound"})
	}
	if tier == "quick" {
		// one seed-chosen bound, kept light (n <= 2^24)
		cands := []uint32{uint32(len(spg.AgileWords)), 62, 3, 1<<20 + 1, 1 << 13, 58, uint32(len(spg.AgileSyllables)), 10, 6*1<<18 + 7}
		jobs = append(jobs, job{pick(r, cands), "seed-chosen quick bound"})
	} else {
		fixed := []job{
			{1 << uint(1+r.Intn(24)), "a power of two"},
			{1<<uint(2+r.Intn(22)) + 1, "2^k+1"},
			{uint32(len(spg.AgileWords)), "shipped word list size"},
			{uint32(len(spg.AgileSyllables)), "shipped syllable list size"},
			{1<<31 + 1 + uint32(r.Intn(1000)), "just above 2^31 (maximal rejection)"},
			{math.MaxUint32, "2^32-1"},
			{62, "letters+digits"}, {10, "digits"}, {3, "three"}, {2, "coin"}, {7, "digits without ambiguous"},
		}
		jobs = append(jobs, fixed...)
		for len(jobs) < 40 {
			n := genBound(r)
			if n < 2 {
				continue
			}
			jobs = append(jobs, job{n, "seed-chosen"})
		}
	}
	// API-level escalations (at most 2) and, in the thorough tier, one seed-chosen configuration
	done := map[string]bool{}
	napi := 0
	for _, es := range c.st.apiEscalations {
		k := fmt.Sprint(es.APIChar, es.APIWL)
		if b, err := json.Marshal(es); err == nil {
			k = string(b)
		}
		if done[k] || napi >= 1 {
			continue
		}
		done[k] = true
		napi++
		e2 := es
		if tr := exactCountAPI(c, &e2, "escalated: the model filter disagreed with the code"); tr != "" {
			c.Trouble("API exact count: %s", tr)
		}
	}
	if tier == "thorough" {
		w := WLCfg{Words: []string{"ka", "lo", "Ka", "mi", "zu", "lo", "reno", "apple"}, Length: 1, Cap: "none", Sep: SepCfg{Kind: "char", Char: ""}}
		if tr := exactCountAPI(c, &C01Spec{APIWL: &w}, "thorough tier: word pick from a list with a duplicate and a twin"); tr != "" {
			c.Trouble("API exact count: %s", tr)
		}
	}
	var sums []exactSummary
	for _, j := range jobs {
		t0 := nowS()
		s, trouble := exactCount(c, j.n, j.why)
		s.WallS = nowS() - t0
		if trouble != "" {
			c.Trouble("exact count n=%d: %s", j.n, trouble)
			continue
		}
		sums = append(sums, s)
		c.Eval(1)
		c.Count("exact_count_bounds", 1)
		c.Count("exact_count_raw_words", 1<<32)
		fmt.Printf("exact count n=%d (%s): accepted=%d rejected=%d per-alternative=%d uniform=%v (%.1fs)\n", j.n, j.why, s.Accepted, s.Rejected, s.PerAlt, s.Uniform, s.WallS)
	}
	b, _ := json.Marshal(sums)
	c.st.Samples = append(c.st.Samples, json.RawMessage(fmt.Sprintf(`{"exact_counts":%s}`, b)))
	_ = filepath.Join
}

// ---------------------------------------------------------------------------
// API-level draws: "whenever a generator picks one of n alternatives". The pick
// of a word or a character inside Generate is observed through the public API
// on raw boundary words; M-draw is again only a filter, disagreements are
// adjudicated by exact counting of all 2^32 first words *through Generate*.
// ---------------------------------------------------------------------------

func apiGenerator(s *C01Spec) (g interface{}, alts []string, desc string, ok bool) {
	curOrders = OrderSpec{Chars: "sorted", Words: "sorted", Visit: "sorted"}
	if s.APIChar != nil {
		rec := s.APIChar.Recipe()
		m := modelChar(*s.APIChar)
		return &rec, m.A, "CharRecipe" + s.APIChar.String(), len(m.A) > 0
	}
	b := s.APIWL.build()
	if b.List == nil {
		return nil, nil, "", false
	}
	kept := modelList(s.APIWL.Words).Kept
	if s.APIWL.Cap == "one" && len(kept) == 1 && s.APIWL.Length >= 2 {
		// the pick of the capitalised position: a single-word list, so the output is determined by
		// the first draw alone; alternative i = the password with word i title-cased
		var alts []string
		for i := 0; i < s.APIWL.Length; i++ {
			var sb strings.Builder
			for j := 0; j < s.APIWL.Length; j++ {
				if j == i {
					sb.WriteString(strings.Title(kept[0]))
				} else {
					sb.WriteString(kept[0])
				}
			}
			alts = append(alts, sb.String())
		}
		return &b.Recipe, alts, "WLRecipe" + s.APIWL.String(), true
	}
	return &b.Recipe, kept, "WLRecipe" + s.APIWL.String(), true
}

func runC01API(c *Ctx, s *C01Spec) {
	g, alts, desc, ok := apiGenerator(s)
	if !ok {
		return
	}
	n := uint32(len(alts))
	if s.Exact {
		if trouble := exactCountAPI(c, s, "replay"); trouble != "" {
			c.Trouble("API exact count: %s", trouble)
		}
		return
	}
	if n < 2 {
		return
	}
	r := Sub(s.Seed, "apiwords")
	raw := uint32(0)
	if s.APIWL != nil {
		raw = uint32(len(s.APIWL.Words))
	}
	var words []uint32
	for _, b := range []uint32{n, raw, n + 1, 2 * n} {
		if b == 0 {
			continue
		}
		top := uint32(math.MaxUint32 - math.MaxUint32%b)
		words = append(words, top-1, top, top+1, math.MaxUint32, math.MaxUint32-1, b-1, b)
	}
	for k := 0; k < 6; k++ {
		words = append(words, biasedWord(r, n))
	}
	// which read belongs to the pick under test: the first announced draw whose bound is the number
	// of alternatives (an unannounced pick is taken to be the first read). The code is free to make
	// its draws in any order, e.g. the word picks before the pick of the capitalised position.
	ti := -2
	for k := uint64(1); k <= 3; k++ {
		pr := genOp(NewTape(TapeSpec{Mode: "raw", Default: "random", Seed: 0xb00 + k}), g)
		if pr.Kind != "ok" {
			continue
		}
		at := 0
		for _, d := range pr.Tape.Draws {
			if d.N == n {
				at = d.At
				break
			}
		}
		if ti == -2 {
			ti = at
		} else if ti != at {
			ti = -3
		}
	}
	if ti < 0 {
		c.Count("api_pick_not_located", 1)
		return
	}
	pre := make([]uint32, ti)
	prr := Sub(s.Seed, "apiprefix")
	for i := range pre {
		pre[i] = prr.U32()
	}
	withWord := func(w uint32) []uint32 { return append(append([]uint32{}, pre...), w) }
	// words consumed by a generation whose raw word for the pick is accepted (the pick may be
	// preceded or followed by other draws)
	baseline := 1 << 30
	for k := uint32(1); k <= 24; k++ {
		pr := genOp(NewTape(TapeSpec{Mode: "raw", Words: withWord(k * 0x01010101), Default: "random", Seed: 0xa91}), g)
		if pr.Kind == "ok" && len(pr.Tape.Served)/4 < baseline {
			baseline = len(pr.Tape.Served) / 4
		}
	}
	if baseline == 1<<30 {
		return
	}
	for _, w := range words {
		res := genOp(NewTape(TapeSpec{Mode: "raw", Words: withWord(w), Default: "random", Seed: 0xa91}), g)
		c.Eval(1)
		c.T(res.tkey())
		c.Distinct(desc, w)
		if res.Kind != "ok" {
			c.Count("api_generation_"+res.Kind, 1)
			continue
		}
		consumed := len(res.Tape.Served) / 4
		mi, macc := mdraw(n, w)
		want := ""
		if macc {
			want = alts[mi]
		}
		agree := (consumed == baseline) == macc && (!macc || res.Pw.S == want)
		c.Count("api_draws_observed", 1)
		if !agree {
			c.Count("filter_disagreements", 1)
			if !c.quiet {
				c.st.Counters["escalate-api:"+desc]++
				c.st.apiEscalations = append(c.st.apiEscalations, *s)
			}
			return
		}
	}
	c.Sample(map[string]interface{}{"api_level": desc, "alternatives": n, "raw_words_tried": len(words)})
}

type apiCountResult struct {
	Accepted uint64            `json:"accepted"`
	Rejected uint64            `json:"rejected"`
	Bad      uint64            `json:"bad"`
	FirstBad string            `json:"first_bad,omitempty"`
	Counts   map[string]uint64 `json:"counts"`
}

// countChildAPIMain: simcheck count-child-api <specfile> <lo> <hi>
func countChildAPIMain(args []string) int {
	b, err := os.ReadFile(args[0])
	if err != nil {
		fmt.Println(err)
		return 2
	}
	var s C01Spec
	if err := json.Unmarshal(b, &s); err != nil {
		fmt.Println(err)
		return 2
	}
	lo, _ := strconv.ParseUint(args[1], 10, 64)
	hi, _ := strconv.ParseUint(args[2], 10, 64)
	installOrderHooks()
	gi, alts, _, ok := apiGenerator(&s)
	if !ok {
		fmt.Println("cannot build generator")
		return 2
	}
	g := asGen(gi)
	fr := &fastReader{cont: 0}
	rand.Reader = fr
	res := apiCountResult{Counts: map[string]uint64{}}
	// which read belongs to the pick under test? The first announced draw whose bound is the number
	// of alternatives (hook H1); a pick that is not announced at all is taken to be the first read.
	// The code is free to make its draws in any order (words first, then the position).
	target, located := -2, 0
	for k := uint32(1); k <= 3; k++ {
		at := -1
		fr.word, fr.reads, fr.target = k*0x01010101, 0, -1
		spg.VerifHooks.NoteDraw = func(b uint32) {
			if at < 0 && int(b) == len(alts) {
				at = fr.reads
			}
		}
		func() {
			defer func() { recover() }()
			if p, err := g.Generate(); err == nil && p != nil {
				located++
				if at < 0 {
					at = 0
				}
				if target == -2 {
					target = at
				} else if target != at {
					target = -3
				}
			}
		}()
	}
	spg.VerifHooks.NoteDraw = nil
	if located == 0 || target < 0 {
		fmt.Println("cannot locate the read of the pick under test (its position among the reads is not stable)")
		return 3
	}
	fr.target = target
	// reads made by a generation whose first raw word is accepted
	baseline := 1 << 30
	for k := uint32(1); k <= 24; k++ {
		fr.word, fr.reads = k*0x01010101, 0
		func() {
			defer func() { recover() }()
			if p, err := g.Generate(); err == nil && p != nil && fr.reads < baseline {
				baseline = fr.reads
			}
		}()
	}
	for v := lo; v < hi; v++ {
		fr.word = uint32(v)
		fr.reads = 0
		var out string
		okc := func() (ok bool) {
			defer func() {
				if e := recover(); e != nil {
					ok = false
				}
			}()
			p, err := g.Generate()
			if err != nil || p == nil {
				return false
			}
			out = p.String()
			return true
		}()
		if !okc {
			res.Bad++
			if res.FirstBad == "" {
				res.FirstBad = fmt.Sprintf("word %#x: Generate failed", v)
			}
			continue
		}
		if fr.reads != baseline {
			res.Rejected++
			continue
		}
		res.Accepted++
		res.Counts[out]++
	}
	ob, _ := json.Marshal(res)
	fmt.Println(string(ob))
	return 0
}

func exactCountAPI(c *Ctx, s *C01Spec, why string) (trouble string) {
	_, alts, desc, ok := apiGenerator(s)
	if !ok {
		return "cannot build generator"
	}
	sp := *s
	sp.Exact = true
	sp.Tapes = nil
	c.vspec = &sp
	defer func() { c.vspec = nil }()
	specFile := filepath.Join(c.scratch, fmt.Sprintf("api-count-%x.json", fnv64(desc)))
	b, _ := json.Marshal(s)
	os.WriteFile(specFile, b, 0644)
	W := runtime.NumCPU()
	if W > 16 {
		W = 16
	}
	exe, _ := os.Executable()
	type out struct {
		res apiCountResult
		err string
	}
	// cost probe: 2^16 words in one child; give up (inconclusive, not a verdict) if all 2^32 would take too long
	tp := nowS()
	if pb, err := exec.Command(exe, "count-child-api", specFile, "0", "65536").Output(); err != nil {
		if ee, ok := err.(*exec.ExitError); ok && ee.ExitCode() == 3 {
			// not a verdict either way
			c.Count("api_exact_count_skipped_pick_not_located", 1)
			fmt.Printf("note: %s: %s; API-level count skipped\n", desc, strings.TrimSpace(tail(string(pb), 200)))
			return ""
		}
		return fmt.Sprintf("api count probe: %v: %s", err, tail(string(pb), 300))
	}
	if projected := (nowS() - tp) * 65536 / float64(W); projected > 900 {
		// not a verdict either way: the API-level adjudication is an extra on top of the direct exact counts
		c.Count("api_exact_count_skipped_too_slow", 1)
		fmt.Printf("note: %s: counting all 2^32 first words through Generate would take about %.0f s on this machine now; skipped (the model filter's disagreement stays unadjudicated)\n", desc, projected)
		return ""
	}
	ch := make(chan out, W)
	total := uint64(1) << 32
	t0 := nowS()
	for w := 0; w < W; w++ {
		lo := total / uint64(W) * uint64(w)
		hi := total / uint64(W) * uint64(w+1)
		if w == W-1 {
			hi = total
		}
		go func(lo, hi uint64) {
			cmd := exec.Command(exe, "count-child-api", specFile, fmt.Sprint(lo), fmt.Sprint(hi))
			cmd.Env = append(os.Environ(), "GOMAXPROCS=1")
			ob, err := cmd.Output()
			var o out
			if err != nil {
				o.err = fmt.Sprintf("api count child: %v: %s", err, tail(string(ob), 400))
			} else if e := json.Unmarshal(ob, &o.res); e != nil {
				o.err = "api count child output: " + e.Error()
			}
			ch <- o
		}(lo, hi)
	}
	tot := apiCountResult{Counts: map[string]uint64{}}
	for w := 0; w < W; w++ {
		o := <-ch
		if o.err != "" {
			trouble = o.err
			continue
		}
		tot.Accepted += o.res.Accepted
		tot.Rejected += o.res.Rejected
		tot.Bad += o.res.Bad
		if tot.FirstBad == "" {
			tot.FirstBad = o.res.FirstBad
		}
		for k, v := range o.res.Counts {
			tot.Counts[k] += v
		}
	}
	if trouble != "" {
		return trouble
	}
	c.Eval(1)
	c.Count("api_exact_count_configs", 1)
	c.Count("api_exact_count_raw_words", 1<<32)
	fmt.Printf("API exact count %s (%s): accepted=%d rejected=%d outputs=%d (%.1fs)\n", desc, why, tot.Accepted, tot.Rejected, len(tot.Counts), nowS()-t0)
	if tot.Bad > 0 {
		c.Violate("exact-count", "api-exact-failed-draws", "%s: Generate fails for %d raw words (%s)", desc, tot.Bad, tot.FirstBad)
		return ""
	}
	if tot.Accepted <= 1<<31 {
		c.Violate("exact-count", "api-exact-acceptance", "%s: only %d of 2^32 raw words are accepted", desc, tot.Accepted)
		return ""
	}
	want := strset{}
	for _, a := range alts {
		want[a] = true
	}
	var minK, maxK string
	var minC, maxC uint64 = math.MaxUint64, 0
	keys := make([]string, 0, len(tot.Counts))
	for k := range tot.Counts {
		keys = append(keys, k)
	}
	sort.Strings(keys)
	for _, k := range keys {
		v := tot.Counts[k]
		if !want[k] {
			c.Violate("exact-count", "api-exact-foreign-output", "%s: output %q is not one of the %d alternatives", desc, k, len(alts))
			return ""
		}
		if v < minC {
			minC, minK = v, k
		}
		if v > maxC {
			maxC, maxK = v, k
		}
	}
	if len(tot.Counts) != len(alts) || minC != maxC {
		c.Violate("exact-count", "api-exact-not-uniform", "%s: the %d alternatives are not selected by the same number of raw words: %q by %d, %q by %d (%d of %d alternatives ever selected; accepted %d, rejected %d)", desc, len(alts), minK, minC, maxK, maxC, len(tot.Counts), len(alts), tot.Accepted, tot.Rejected)
	}
	return ""
}
