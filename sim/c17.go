package main

import (
	"bytes"
	"encoding/binary"
	"fmt"
	"math"
	"os"
	"os/exec"
	"path/filepath"
	"strings"

	"go.1password.io/spg"
)

// ---------------------------------------------------------------------------
// C17: the opgen CLI is faithful to the library recipe its flags describe.
// opgen is built from the working tree with -tags verif and run as a child
// process whose argv, word-list file, stdio and random tape (hook H7) the
// simulator owns; stdout must equal what the equivalent library recipe
// returns on the same tape and orders in-process.
// ---------------------------------------------------------------------------

type C17Spec struct {
	Sub          string   `json:"sub"` // characters | words | "" | other
	Length       *int     `json:"length,omitempty"`
	Allow        []string `json:"allow,omitempty"`
	Require      []string `json:"require,omitempty"`
	Exclude      []string `json:"exclude,omitempty"`
	Entropy      bool     `json:"entropy,omitempty"`
	Size         *int     `json:"size,omitempty"`
	List         string   `json:"list,omitempty"`
	File         string   `json:"file,omitempty"` // "" | valid | dups | empty | whitespace | missing | dir
	Words        []string `json:"words,omitempty"`
	Sep          string   `json:"sep,omitempty"`
	Cap          string   `json:"cap,omitempty"`
	BadFlag      string   `json:"bad_flag,omitempty"`
	Style        int      `json:"style"` // flag syntax variation
	Spaces       bool     `json:"spaces,omitempty"`
	Commas       int      `json:"commas,omitempty"`        // 1 trailing, 2 leading, 3 doubled comma in class lists (empty elements name no class)
	BlankExclude bool     `json:"blank_exclude,omitempty"` // --exclude=" ": an explicit list naming no class (exclude nothing)
	TapeSeed     uint64   `json:"tape_seed"`
	// the word file and the process environment are the CLI's "disk" and "peers": white space of every
	// Unicode kind between the words, no final newline, a file larger than any plausible read limit
	// (padding of blanks in front of the last word), an unrelated regular file on standard input
	FileSep   int  `json:"file_sep,omitempty"`    // 0: newline or blank by Style; k>0: fileSeps[k-1]
	NoFinalNL bool `json:"no_final_nl,omitempty"` // the file ends with its last word
	PadMiB    int  `json:"pad_mib,omitempty"`     // MiB of blanks and newlines in front of the last word
	StdinFile bool `json:"stdin_file,omitempty"`  // standard input is a regular file with three words in it
}

var fileSeps = []string{"\u00a0", "\u2028", "\u3000", "\u0085", "\t\r\n", "\u2003\n", "\v\f"}

var classBits = map[string]uint32{"uppercase": 1, "lowercase": 2, "digits": 4, "symbols": 8, "ambiguous": 16}
var classNames = []string{"uppercase", "lowercase", "digits", "symbols", "ambiguous"}
var cliSeps = map[string]string{"hyphen": "-", "space": " ", "comma": ",", "period": ".", "underscore": "_", "none": ""}

func genC17(r *Rng, seed uint64) *C17Spec {
	s := &C17Spec{TapeSeed: mix(seed, "tape"), Style: r.Intn(4)}
	pickClasses := func(max int) []string {
		n := 1 + r.Intn(max)
		p := r.Perm(len(classNames))
		var out []string
		for i := 0; i < n; i++ {
			out = append(out, classNames[p[i]])
		}
		if r.Chance(0.12) {
			out = append(out, out[r.Intn(len(out))]) // the same class named twice
		}
		return out
	}
	switch k := r.Intn(20); {
	case k == 0:
		s.Sub = ""
		return s
	case k == 1:
		s.Sub = pick(r, []string{"recipe", "chars", "word", "generate", "Characters"})
		return s
	case k < 11:
		s.Sub = "characters"
		if r.Chance(0.7) {
			v := pick(r, []int{1, 2, 3, 4, 8, 12, 20, 33, 64})
			if r.Chance(0.08) {
				v = pick(r, []int{0, -1, -5})
			}
			s.Length = &v
		}
		if r.Chance(0.55) {
			s.Allow = pickClasses(4)
		}
		if r.Chance(0.4) {
			s.Require = pickClasses(3)
		}
		if r.Chance(0.45) {
			s.Exclude = pickClasses(2)
		}
		s.Spaces = r.Chance(0.25)
		if r.Chance(0.15) {
			s.Commas = 1 + r.Intn(3)
		}
		if s.Exclude == nil && r.Chance(0.1) {
			s.BlankExclude = true
		}
	default:
		s.Sub = "words"
		if r.Chance(0.7) {
			v := 1 + r.Intn(7)
			if r.Chance(0.08) {
				v = pick(r, []int{0, -2})
			}
			s.Size = &v
		}
		switch r.Intn(8) {
		case 0, 1:
			s.List = "words"
		case 2, 3:
			s.List = "syllables"
		case 4:
			s.List = pick(r, []string{"wordz", "english", "Words"})
		}
		if r.Chance(0.35) {
			s.File = pick(r, []string{"valid", "valid", "dups", "dups", "empty", "whitespace", "missing", "dir", "longline"})
			s.Words = genWords(r, listOpt{min: 1, max: 9, twins: 0.15, precap: 0.1, caseless: 0.1})
			var clean []string
			for _, w := range s.Words {
				if f := strings.Fields(w); len(f) == 1 {
					clean = append(clean, f[0])
				}
			}
			if len(clean) == 0 {
				clean = []string{"solo"}
			}
			s.Words = clean
			if s.File == "dups" {
				s.Words = append(s.Words, s.Words[0], pick(r, s.Words))
			}
			if s.File == "longline" {
				// thousands of words on a single line (more than 64 KiB without a newline)
				base := append([]string{}, s.Words...)
				s.Words = nil
				for i := 0; i < 9000; i++ {
					s.Words = append(s.Words, fmt.Sprintf("%s%d", base[i%len(base)], i))
				}
			}
		}
		if s.File == "valid" || s.File == "dups" {
			if r.Chance(0.3) {
				s.FileSep = 1 + r.Intn(len(fileSeps))
			}
			s.NoFinalNL = r.Chance(0.3)
			if r.Chance(0.04) {
				s.PadMiB = pick(r, []int{2, 9, 17, 33})
			}
		}
		if r.Chance(0.6) {
			s.Sep = pick(r, []string{"hyphen", "space", "comma", "period", "underscore", "digit", "none"})
		}
		if r.Chance(0.6) {
			s.Cap = pick(r, capSchemes)
		}
	}
	s.Entropy = r.Chance(0.2)
	s.StdinFile = r.Chance(0.15)
	if r.Chance(0.06) {
		s.BadFlag = pick(r, []string{"--bogus", "--lenght=3", "-x", "--separator-char=-"})
	}
	return s
}

func (s *C17Spec) argv(filePath string) []string {
	if s.Sub == "" {
		return nil
	}
	args := []string{s.Sub}
	add := func(name, val string) {
		dash := "--"
		if s.Style&1 == 1 {
			dash = "-"
		}
		if s.Style&2 == 2 {
			args = append(args, dash+name, val)
		} else {
			args = append(args, dash+name+"="+val)
		}
	}
	join := func(cs []string) string {
		if s.Spaces {
			// blanks anywhere in a class list are documented to be ignored
			switch s.Style % 4 {
			case 0:
				return strings.Join(cs, ", ")
			case 1:
				return strings.Join(cs, " ,")
			case 2:
				return " " + strings.Join(cs, ",") + " "
			default:
				return strings.Join(cs, " , ")
			}
		}
		out := strings.Join(cs, ",")
		switch s.Commas {
		case 1:
			out += ","
		case 2:
			out = "," + out
		case 3:
			out = strings.Replace(out, ",", ",,", 1) + ","
		}
		return out
	}
	if s.Length != nil {
		add("length", fmt.Sprint(*s.Length))
	}
	if s.Allow != nil {
		add("allow", join(s.Allow))
	}
	if s.Require != nil {
		add("require", join(s.Require))
	}
	if s.Exclude != nil {
		add("exclude", join(s.Exclude))
	} else if s.BlankExclude {
		add("exclude", " ")
	}
	if s.Size != nil {
		add("size", fmt.Sprint(*s.Size))
	}
	if s.List != "" {
		add("list", s.List)
	}
	if s.File != "" {
		add("file", filePath)
	}
	if s.Sep != "" {
		add("separator", s.Sep)
	}
	if s.Cap != "" {
		add("capitalize", s.Cap)
	}
	if s.Entropy {
		args = append(args, "--entropy")
	}
	if s.BadFlag != "" {
		args = append(args, s.BadFlag)
	}
	return args
}

func bitsOf(cs []string, def uint32) uint32 {
	if cs == nil {
		return def
	}
	var b uint32
	for _, c := range cs {
		b |= classBits[c]
	}
	return b
}

var agileBuilt = map[string]*spg.WordList{}

type cliExpect struct {
	exit     int    // 0, 1, 2; -1 don't care
	stdout   string // exact expected stdout when exit == 0 ("" with dontcareOut)
	dontcare bool
	why      string
	consumed int
}

// expectation evaluates M-cli and, for honourable recipes, the library
// in-process on the same tape.
func (s *C17Spec) expectation(c *Ctx, tape []byte) cliExpect {
	switch {
	case s.Sub == "":
		return cliExpect{exit: 2, why: "missing subcommand"}
	case s.Sub != "characters" && s.Sub != "words":
		return cliExpect{exit: 2, why: "unknown subcommand"}
	case s.BadFlag != "":
		return cliExpect{exit: 2, why: "unknown flag"}
	}
	curOrders = OrderSpec{Chars: "sorted", Words: "sorted", Visit: "native"}
	words := wordsOf(tape)
	mkTape := func() *Tape { return NewTape(TapeSpec{Mode: "raw", Words: words, Default: "zero"}) }
	if s.Sub == "characters" {
		cfg := CharCfg{Length: 20, Allow: bitsOf(s.Allow, 15), Require: bitsOf(s.Require, 0), Exclude: bitsOf(s.Exclude, 16)}
		if s.BlankExclude && s.Exclude == nil {
			cfg.Exclude = 0 // an explicit value that names no class replaces the default
		}
		if s.Length != nil {
			cfg.Length = *s.Length
		}
		m := modelChar(cfg)
		honour := "yes"
		switch {
		case cfg.Length < 1 || len(m.A) == 0:
			honour = "no"
		default:
			p := ratToFloat(m.SuccessProb())
			if p == 0 {
				honour = "no"
			} else {
				switch e, _ := refusalExpectation(p, float64(cfg.Length)*math.Log2(float64(len(m.A))), 200, 1e-9); e {
				case "error":
					honour = "no"
				case "dontcare":
					honour = "dontcare"
				}
			}
		}
		if honour == "dontcare" || (s.Entropy && honour == "no") {
			return cliExpect{dontcare: true}
		}
		if honour == "no" {
			return cliExpect{exit: 1, why: "the library refuses " + cfg.String()}
		}
		rec := cfg.Recipe()
		if s.Entropy {
			e := entropyOp(mkTape(), &rec)
			return cliExpect{exit: 0, stdout: fmt.Sprintf("%.2f\n", float32(e.F)), why: "entropy of " + cfg.String()}
		}
		res := genOp(mkTape(), &rec)
		if res.Kind != "ok" {
			return cliExpect{dontcare: true}
		}
		return cliExpect{exit: 0, stdout: res.Pw.S + "\n", why: "library result of " + cfg.String(), consumed: len(res.Tape.Served)}
	}
	// words
	if s.File == "" && s.List != "" && s.List != "words" && s.List != "syllables" {
		return cliExpect{exit: 2, why: "unknown list"}
	}
	var wl *spg.WordList
	switch s.File {
	case "":
		name := s.List
		if name == "" {
			name = "words"
		}
		wl = agileBuilt[name]
		if wl == nil {
			var err error
			wl, err = spg.NewWordList(shippedLists[name])
			if err != nil {
				return cliExpect{dontcare: true}
			}
			agileBuilt[name] = wl
		}
	case "valid", "dups", "longline":
		m := mark()
		var err error
		before := hookCalls.words
		wl, err = spg.NewWordList(append([]string{}, s.Words...))
		_ = since(m)
		if err == nil && hookCalls.words == before {
			panic(sentCannotDrive) // word index order not owned: child and in-process results are not comparable
		}
		if err != nil {
			return cliExpect{exit: 1, why: "word list refused"}
		}
	default:
		return cliExpect{exit: 1, why: "word-list file " + s.File}
	}
	size := 4
	if s.Size != nil {
		size = *s.Size
	}
	if size < 1 {
		if s.Entropy {
			return cliExpect{dontcare: true}
		}
		return cliExpect{exit: 1, why: "non-positive size"}
	}
	rec := spg.NewWLRecipe(size, wl)
	sep := s.Sep
	if sep == "" {
		sep = "hyphen"
	}
	if sep == "digit" {
		rec.SeparatorFunc = spg.SFDigits1
	} else {
		v := cliSeps[sep]
		rec.SeparatorFunc = func() (string, spg.FloatE) { return v, 0 }
	}
	cp := s.Cap
	if cp == "" {
		cp = "none"
	}
	rec.Capitalize = spg.CapScheme(cp)
	if s.Entropy {
		e := entropyOp(mkTape(), rec)
		return cliExpect{exit: 0, stdout: fmt.Sprintf("%.2f\n", float32(e.F)), why: "entropy of the wordlist recipe"}
	}
	res := genOp(mkTape(), rec)
	if res.Kind != "ok" {
		return cliExpect{dontcare: true}
	}
	return cliExpect{exit: 0, stdout: res.Pw.S + "\n", why: "library result of the wordlist recipe", consumed: len(res.Tape.Served)}
}

func opgenBinary() string {
	if sc := os.Getenv("VERIF_SCRATCH"); sc != "" {
		p := filepath.Join(sc, "opgen")
		if _, err := os.Stat(p); err == nil {
			return p
		}
	}
	return ""
}

func init() {
	register(&CheckDef{
		ID: "C17", Level: "exploration",
		Technique:   "deterministic simulation of the opgen process: child built from the working tree with the verif tag, with simulator-owned argv, word-list file state, stdio pipes and a file-backed random tape (hook H7); stdout compared exactly with the equivalent library recipe evaluated in-process on the same tape; usage / refusal / file-fault exit statuses checked",
		Rule:        "case = one opgen invocation; distinct by hash of (argv shape, file state); non-trivial = at least one flag besides the subcommand, or a file, or an error path",
		Assumptions: []string{"the tagged binary differs from the shipped one only by hook H7's init (tape instead of the OS source, sorted index orders)", "don't-care: unknown words inside --allow/--require/--exclude, unknown --separator/--capitalize values, explicit empty class lists, -h/--help, --entropy of a recipe the library refuses", "this is mostly configuration exploration; simulation contributes the deterministic child process (exact oracle) and the file faults"},
		Episodes:    map[string]int{"quick": 4000, "thorough": 800000},
		TwiceEvery:  9,
		Real:        []string{"cmd/opgen (real process)", "package spg inside the child", "flag package (std)"},
		Simulated:   []string{"argv", "word-list file: valid, duplicated, empty, whitespace only, missing, a directory", "stdout/stderr pipes", "the child's random source (tape file via VERIF_TAPE)"},
		Gen: func(seed uint64, tier string) interface{} {
			return genC17(Sub(seed, "config"), seed)
		},
		Decode: decodeInto[C17Spec],
		Run:    runC17,
		Shrink: func(si interface{}) []interface{} {
			s := si.(*C17Spec)
			var out []interface{}
			try := func(f func(n *C17Spec)) {
				n := *s
				f(&n)
				out = append(out, &n)
			}
			if s.Length != nil {
				try(func(n *C17Spec) { n.Length = nil })
			}
			if s.Allow != nil {
				try(func(n *C17Spec) { n.Allow = nil })
			}
			if s.Require != nil {
				try(func(n *C17Spec) { n.Require = nil })
			}
			if s.Exclude != nil {
				try(func(n *C17Spec) { n.Exclude = nil })
			}
			if s.Size != nil {
				try(func(n *C17Spec) { n.Size = nil })
			}
			if s.Sep != "" {
				try(func(n *C17Spec) { n.Sep = "" })
			}
			if s.Cap != "" {
				try(func(n *C17Spec) { n.Cap = "" })
			}
			if s.List != "" {
				try(func(n *C17Spec) { n.List = "" })
			}
			if s.Style != 0 {
				try(func(n *C17Spec) { n.Style = 0 })
			}
			if len(s.Words) > 1 {
				for i := range s.Words {
					i := i
					try(func(n *C17Spec) { n.Words = append(append([]string{}, s.Words[:i]...), s.Words[i+1:]...) })
				}
			}
			return out
		},
	})
}

func runC17(c *Ctx, si interface{}) {
	s := si.(*C17Spec)
	bin := opgenBinary()
	if bin == "" {
		c.Trouble("opgen binary not built (the ./check wrapper builds it for C17)")
		return
	}
	dir, err := os.MkdirTemp(c.scratch, "opgen-ep-")
	if err != nil {
		c.Trouble("mkdir: %v", err)
		return
	}
	defer os.RemoveAll(dir)
	// tape
	tr := Sub(s.TapeSeed, "tape")
	tape := make([]byte, 4096)
	for i := 0; i+4 <= len(tape); i += 4 {
		binary.BigEndian.PutUint32(tape[i:], tr.U32())
	}
	tapePath := filepath.Join(dir, "tape")
	usedPath := filepath.Join(dir, "used")
	os.WriteFile(tapePath, tape, 0600)
	// file state
	filePath := filepath.Join(dir, "wordlist.txt")
	switch s.File {
	case "valid", "dups", "longline":
		sepr := "\n"
		if s.Style&1 == 1 || s.File == "longline" {
			sepr = " "
		}
		if s.FileSep > 0 && s.FileSep <= len(fileSeps) {
			sepr = fileSeps[s.FileSep-1]
		}
		content := strings.Join(s.Words, sepr)
		if s.PadMiB > 0 {
			// the last word sits behind PadMiB of blank lines
			k := strings.LastIndex(content, sepr)
			pad := strings.Repeat("          \n", s.PadMiB<<20/11+1)
			if k >= 0 {
				content = content[:k] + sepr + pad + content[k+len(sepr):]
			} else {
				content = pad + content
			}
			c.Fault("file_padded_beyond_read_limits", 1)
		}
		if !s.NoFinalNL {
			content += "\n"
		}
		if s.FileSep > 0 {
			c.Fault("file_unicode_white_space", 1)
		}
		os.WriteFile(filePath, []byte(content), 0600)
	case "empty":
		os.WriteFile(filePath, nil, 0600)
	case "whitespace":
		os.WriteFile(filePath, []byte(" \n\t \n"), 0600)
	case "dir":
		os.Mkdir(filePath, 0700)
	case "missing":
	}
	if s.File != "" {
		c.Fault("file_"+s.File, 1)
	}
	args := s.argv(filePath)
	cmd := exec.Command(bin, args...)
	cmd.Env = []string{"VERIF_TAPE=" + tapePath, "VERIF_TAPE_USED=" + usedPath, "PATH=/usr/bin:/bin"}
	var so, se bytes.Buffer
	cmd.Stdout, cmd.Stderr = &so, &se
	if s.StdinFile {
		// an unrelated regular file inherited as standard input (a `while read ...; done < users.txt` loop)
		inPath := filepath.Join(dir, "stdin.txt")
		os.WriteFile(inPath, []byte("alice bob carol\n"), 0600)
		if f, err := os.Open(inPath); err == nil {
			defer f.Close()
			cmd.Stdin = f
			c.Fault("stdin_is_a_regular_file", 1)
		}
	}
	runErr := cmd.Run()
	exit := 0
	if ee, ok := runErr.(*exec.ExitError); ok {
		exit = ee.ExitCode()
	} else if runErr != nil {
		c.Trouble("cannot run opgen: %v", runErr)
		return
	}
	used := 0
	if b, err := os.ReadFile(usedPath); err == nil {
		fmt.Sscan(string(b), &used)
	}
	c.Eval(1)
	c.T(exit, so.String(), used) // stderr carries log timestamps and temp paths: not part of the transcript
	if len(args) > 1 {
		c.Distinct(strings.Join(args[:1], " "), s.Length != nil, s.Allow != nil, s.Require != nil, s.Exclude != nil, s.Size != nil, s.List, s.File, s.Sep, s.Cap, s.Entropy, s.BadFlag != "")
	}
	exp := s.expectation(c, tape)
	desc := fmt.Sprintf("opgen %q (file: %s %q)", args, s.File, brief1(s.Words))
	if exp.dontcare {
		c.Count("dontcare", 1)
		return
	}
	c.Count(fmt.Sprintf("expect_exit_%d", exp.exit), 1)
	if exit != exp.exit {
		c.Violate("exit-status", fmt.Sprintf("exit-%d-want-%d", exit, exp.exit), "%s: exit status %d, want %d (%s); stdout %q stderr %q", desc, exit, exp.exit, exp.why, clip(so.String()), clip(se.String()))
		return
	}
	if exp.exit != 0 {
		if used > 0 {
			c.Violate("password-on-failure", "", "%s: exit %d but %d random bytes were consumed (a password was generated); stdout %q", desc, exit, used, clip(so.String()))
		}
		return
	}
	if so.String() != exp.stdout {
		key := "stdout-differs"
		lines := strings.Split(strings.TrimRight(so.String(), "\n"), "\n")
		if len(lines) == 2 && lines[1]+"\n" == exp.stdout && strings.Contains(lines[0], "duplicate words found") {
			key = "stdout-duplicate-word-notice"
		}
		c.Violate("stdout", key, "%s: stdout %q, want exactly %q (%s)", desc, clip(so.String()), exp.stdout, exp.why)
		return
	}
	if !s.Entropy && len(exp.stdout) > 5 && strings.Contains(se.String(), strings.TrimSpace(exp.stdout)) {
		c.Violate("stderr-password", "", "%s: the password also appears on stderr: %q", desc, clip(se.String()))
		return
	}
	if exp.consumed > 0 && used != exp.consumed {
		c.Violate("stdout", "randomness-consumption", "%s: the child consumed %d random bytes, the library recipe %d", desc, used, exp.consumed)
		return
	}
	c.Sample(map[string]interface{}{"argv": args, "exit": exit, "stdout": so.String(), "file": s.File})
}
