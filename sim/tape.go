package main

import (
	"crypto/rand"
	"encoding/binary"
	"errors"
	"fmt"
	"io"
	"math"
	"syscall"

	"go.1password.io/spg"
)

// ---------------------------------------------------------------------------
// The tape: the object behind crypto/rand.Reader during an episode (N1).
// ---------------------------------------------------------------------------

// Fault is one injected read fault, keyed by the number of the Read call
// (0-based, counted per tape) at which it fires.
type Fault struct {
	Read int    `json:"read"`
	Kind string `json:"kind"` // ERR0 ERR1 ERR2 ERR3 EOF SHORT ZERO
	Arg  int    `json:"arg,omitempty"`
}

// TapeSpec is the replayable description of a tape.
type TapeSpec struct {
	Mode    string   `json:"mode"` // "raw" | "choice"
	Seed    uint64   `json:"seed"`
	Words   []uint32 `json:"words,omitempty"`   // raw mode: explicit leading 32-bit words
	Choices []uint32 `json:"choices,omitempty"` // choice mode: explicit leading indices, one per bounded draw
	Default string   `json:"default,omitempty"` // beyond the script: random | zero | last | bias
	Faults  []Fault  `json:"faults,omitempty"`
	Chunk   string   `json:"chunk,omitempty"` // "" (whole reads) | one | rand3 | zerothen
}

type DrawRec struct {
	N     uint32 `json:"n"`
	Index int64  `json:"index"`        // index the simulator asked for (-1: raw mode)
	At    int    `json:"at,omitempty"` // number of 32-bit words the tape had served when the draw was announced
}

type ReadRec struct {
	Site string `json:"site,omitempty"` // last major yield site before the read
	Req  int    `json:"req"`
	Got  int    `json:"got"`
	Err  string `json:"err,omitempty"`
}

type Tape struct {
	spec     TapeSpec
	rng      *Rng
	chunkRng *Rng
	queue    []byte
	nextWord uint32
	haveNext bool
	lastN    uint32
	wordNo   int
	Draws    []DrawRec
	Reads    []ReadRec
	Served   []byte
	zeroLeft int
	faults   map[int]Fault
	Fired    map[string]int
	dead     error // a fault delivered an error: every later read fails too
	// probes
	CharLists [][]string // every alphabet list handed to Generate (after H2), in call order
	lastSite  string
	Unbound   int // words served for reads no bounded draw announced (redraws, raw reads)
	limit     int
}

var errInjected = errors.New("injected read fault")

type sentinel string

const (
	sentProbeExhausted sentinel = "probe-exhausted"
	sentRunaway        sentinel = "tape-runaway"
	sentNoTape         sentinel = "random-read-outside-episode"
	sentCannotDrive    sentinel = "cannot-drive"
)

func NewTape(spec TapeSpec) *Tape {
	t := &Tape{spec: spec, rng: Sub(spec.Seed, "tape"), chunkRng: Sub(spec.Seed, "chunk"),
		faults: map[int]Fault{}, Fired: map[string]int{}, limit: 1 << 22}
	for _, f := range spec.Faults {
		t.faults[f.Read] = f
	}
	return t
}

// noteDraw is called (through hook H1) at the top of every bounded draw.
func (t *Tape) noteDraw(n uint32) {
	t.lastN = n
	k := len(t.Draws)
	if t.spec.Mode != "choice" || n == 0 {
		t.Draws = append(t.Draws, DrawRec{n, -1, t.wordNo})
		return
	}
	var idx uint32
	if k < len(t.spec.Choices) {
		idx = t.spec.Choices[k] % n
	} else {
		switch t.spec.Default {
		case "zero":
			idx = 0
		case "last":
			idx = n - 1
		case "bias":
			switch t.rng.Intn(6) {
			case 0:
				idx = 0
			case 1:
				idx = n - 1
			default:
				idx = uint32(t.rng.U64() % uint64(n))
			}
		default:
			idx = uint32(t.rng.U64() % uint64(n))
		}
	}
	t.Draws = append(t.Draws, DrawRec{n, int64(idx), t.wordNo})
	t.nextWord = probeWord(n, idx)
	t.haveNext = true
}

func (t *Tape) genWord() uint32 {
	defer func() { t.wordNo++ }()
	if t.spec.Mode == "choice" {
		if t.haveNext {
			t.haveNext = false
			return t.nextWord
		}
		t.Unbound++
		return t.rng.U32()
	}
	if t.wordNo < len(t.spec.Words) {
		return t.spec.Words[t.wordNo]
	}
	switch t.spec.Default {
	case "zero":
		return 0
	case "bias":
		return biasedWord(t.rng, t.lastN)
	}
	return t.rng.U32()
}

// biasedWord returns a raw word that is often a boundary value for bound n.
func biasedWord(r *Rng, n uint32) uint32 {
	if n == 0 {
		return r.U32()
	}
	top := uint32(math.MaxUint32 - math.MaxUint32%n) // first word not below the largest multiple
	switch r.Intn(10) {
	case 0:
		return 0
	case 1:
		return math.MaxUint32
	case 2:
		return n - 1
	case 3:
		return n
	case 4:
		return top - 1
	case 5:
		return top
	case 6:
		k := uint32(r.U64() % (uint64(math.MaxUint32/n) + 1))
		return k*n - 1
	case 7:
		k := uint32(r.U64() % (uint64(math.MaxUint32/n) + 1))
		return k * n
	}
	return r.U32()
}

func (t *Tape) Read(p []byte) (int, error) {
	readNo := len(t.Reads)
	if readNo > 1<<18 {
		panic(sentRunaway)
	}
	rec := ReadRec{Req: len(p), Site: t.lastSite}
	defer func() { t.Reads = append(t.Reads, rec) }()
	if len(t.Served) > t.limit {
		panic(sentRunaway)
	}
	if t.dead != nil {
		rec.Err = t.dead.Error()
		return 0, t.dead
	}
	if t.zeroLeft > 0 {
		t.zeroLeft--
		return 0, nil
	}
	want := len(p)
	if f, ok := t.faults[readNo]; ok {
		t.Fired[f.Kind]++
		switch f.Kind {
		case "ERR0", "ERR1", "ERR2", "ERR3":
			k := int(f.Kind[3] - '0')
			if k > want {
				k = want
			}
			n := t.deliver(p[:k])
			rec.Got, rec.Err = n, errInjected.Error()
			t.dead = errInjected
			return n, errInjected
		case "TMP0", "TMP2", "ONCE0", "ONCE1":
			// transient failures: the source reports an error for this one read and works again
			// afterwards. TMP* is a "temporary" error (EAGAIN), ONCE* a plain one.
			k := int(f.Kind[len(f.Kind)-1] - '0')
			if k > want {
				k = want
			}
			n := t.deliver(p[:k])
			var e error = errInjected
			if f.Kind[0] == 'T' {
				e = syscall.EAGAIN
			}
			rec.Got, rec.Err = n, e.Error()
			return n, e
		case "EOF":
			rec.Err = io.EOF.Error()
			t.dead = io.EOF
			return 0, io.EOF
		case "SHORT":
			k := f.Arg
			if k >= want {
				k = want - 1
			}
			if k < 0 {
				k = 0
			}
			if k == 0 { // a zero-length successful read
				return 0, nil
			}
			want = k
		case "ZERO":
			t.zeroLeft = f.Arg - 1
			return 0, nil
		}
	} else {
		switch t.spec.Chunk {
		case "one":
			want = 1
		case "rand3":
			want = 1 + t.chunkRng.Intn(3)
		case "zerothen":
			if readNo%2 == 0 {
				t.Fired["chunk-zero"]++
				return 0, nil
			}
		}
		if want > len(p) {
			want = len(p)
		}
		if want < len(p) {
			t.Fired["chunk-short"]++
		}
	}
	n := t.deliver(p[:want])
	rec.Got = n
	return n, nil
}

func (t *Tape) deliver(p []byte) int {
	for len(t.queue) < len(p) {
		var b [4]byte
		binary.BigEndian.PutUint32(b[:], t.genWord())
		t.queue = append(t.queue, b[:]...)
	}
	n := copy(p, t.queue)
	t.Served = append(t.Served, t.queue[:n]...)
	t.queue = t.queue[n:]
	return n
}

// ---------------------------------------------------------------------------
// Dispatcher: the single io.Reader installed as crypto/rand.Reader.
// ---------------------------------------------------------------------------

var simr struct {
	cur   *Tape  // tape of the operation in progress (single-client mode)
	sched *Sched // when non-nil, reads and hooks are routed to the running client
	probe struct {
		active bool
		word   uint32
		served int
	}
	osReader io.Reader
}

type dispatcher struct{}

func currentTape() *Tape {
	if simr.sched != nil {
		return simr.sched.currentTape()
	}
	return simr.cur
}

func (dispatcher) Read(p []byte) (int, error) {
	if simr.probe.active {
		if simr.probe.served >= 4 {
			panic(sentProbeExhausted)
		}
		var b [4]byte
		binary.BigEndian.PutUint32(b[:], simr.probe.word)
		n := copy(p, b[simr.probe.served:])
		simr.probe.served += n
		return n, nil
	}
	t := currentTape()
	if t == nil {
		panic(sentNoTape)
	}
	n, err := t.Read(p)
	// The random source is a seam the simulator owns: in controlled-interleaving mode the
	// caller is parked after the bytes have been delivered and before it decodes them, so a
	// buffer shared between callers (instead of one per draw) is overwritten by whoever runs next.
	if s := simr.sched; s != nil {
		s.yield("tape.Read:afterFill")
	}
	return n, err
}

func installSimulator() {
	installed = true
	simr.osReader = rand.Reader
	rand.Reader = dispatcher{}
	spg.VerifHooks.NoteDraw = func(n uint32) {
		if simr.probe.active {
			return
		}
		if t := currentTape(); t != nil {
			t.noteDraw(n)
		}
		if s := simr.sched; s != nil {
			s.yield("hook:noteDraw") // between the entry of a bounded draw and its read of the source
		}
	}
	spg.VerifHooks.Yield = func(site string) {
		if simr.probe.active {
			return
		}
		if site == "sfWrap" || site == "WLRecipe.Generate:beforeWord" || site == "WLRecipe.Generate:beforeEntropy" || site == "CharRecipe.Generate:afterBuild" {
			if t := currentTape(); t != nil {
				t.lastSite = site
			}
		}
		if s := simr.sched; s != nil {
			s.yield(site)
		}
	}
}

// ---------------------------------------------------------------------------
// Probe table: a raw word that makes the *real* bounded draw return index i
// under bound n on its first read. The harness asks the code instead of
// copying its arithmetic.
// ---------------------------------------------------------------------------

var probeCache = map[uint64]uint32{}
var probeCalls int

func probeOnce(n, word uint32) (res uint32, accepted bool) {
	simr.probe.active = true
	simr.probe.word = word
	simr.probe.served = 0
	defer func() {
		simr.probe.active = false
		if r := recover(); r != nil {
			if r == sentProbeExhausted {
				accepted = false
				return
			}
			accepted = false
		}
	}()
	probeCalls++
	res = spg.VerifRandomUint32n(n)
	return res, true
}

func probeWord(n, i uint32) uint32 {
	key := uint64(n)<<32 | uint64(i)
	if w, ok := probeCache[key]; ok {
		return w
	}
	cands := []uint32{i}
	scaled := (uint64(i)<<32 + uint64(n) - 1) / uint64(n)
	for d := uint64(0); d < 3; d++ {
		if scaled+d <= math.MaxUint32 {
			cands = append(cands, uint32(scaled+d))
		}
	}
	for k := uint64(1); k <= 4; k++ {
		if v := uint64(i) + k*uint64(n); v <= math.MaxUint32 {
			cands = append(cands, uint32(v))
		}
	}
	for _, w := range cands {
		if r, ok := probeOnce(n, w); ok && r == i {
			if len(probeCache) < 1<<20 {
				probeCache[key] = w
			}
			return w
		}
	}
	// Fallback for samplers whose map from raw words to alternatives is monotone but none of the
	// simple candidates (top-bits-with-rejection, say): binary search over the raw word, stepping over
	// rejected words; a region of rejected words is taken to lie above the accepted ones.
	lo, hi := uint64(0), uint64(math.MaxUint32)
	for lo <= hi {
		mid := (lo + hi) / 2
		r, ok := probeOnce(n, uint32(mid))
		for d := uint64(1); !ok && d <= 8 && mid+d <= hi; d++ {
			r, ok = probeOnce(n, uint32(mid+d))
			if ok {
				mid += d
			}
		}
		switch {
		case ok && r == i:
			if len(probeCache) < 1<<20 {
				probeCache[key] = uint32(mid)
			}
			return uint32(mid)
		case ok && r < i:
			lo = mid + 1
		default:
			if mid == 0 {
				panic(sentCannotDrive)
			}
			hi = mid - 1
		}
	}
	panic(sentCannotDrive)
}

func (t *Tape) summary() string {
	return fmt.Sprintf("draws=%d reads=%d bytes=%d", len(t.Draws), len(t.Reads), len(t.Served))
}
