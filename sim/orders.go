package main

import (
	"sort"
	"strings"

	"go.1password.io/spg"
)

// OrderSpec is the replayable description of the orders the simulator imposes
// where spg iterates over Go maps (N2).
type OrderSpec struct {
	Chars string `json:"chars"` // sorted | reverse | perm | native
	Words string `json:"words"` // sorted | reverse | perm | native
	Visit string `json:"visit"` // sorted | reverse | perm | twinfirst | twinlast | native
	Seed  uint64 `json:"seed"`
}

var curOrders = OrderSpec{Chars: "sorted", Words: "sorted", Visit: "native"}

// hookCalls counts hook invocations, so that checks whose oracle depends on an owned order can
// tell "the hook was not reached" (inconclusive) from a wrong result.
var hookCalls struct{ words int }

// probes on what the visit order exercised
var visitStats struct {
	constructions   int
	twinBeforeLower int // a title-cased twin was scheduled before its lower-case form
	twinAfterLower  int
}

func applyOrder(mode string, seed uint64, label string, in []string) []string {
	out := append([]string(nil), in...)
	sort.Strings(out)
	switch mode {
	case "sorted":
	case "reverse":
		for i, j := 0, len(out)-1; i < j; i, j = i+1, j-1 {
			out[i], out[j] = out[j], out[i]
		}
	case "perm":
		p := Sub(seed, label).Perm(len(out))
		q := make([]string, len(out))
		for i, j := range p {
			q[i] = out[j]
		}
		out = q
	}
	return out
}

func installOrderHooks() {
	spg.VerifHooks.OrderChars = func(c []string) []string {
		if simr.probe.active || curOrders.Chars == "native" {
			return c
		}
		out := applyOrder(curOrders.Chars, curOrders.Seed, "chars", c)
		if t := currentTape(); t != nil {
			t.CharLists = append(t.CharLists, out)
		}
		if s := simr.sched; s != nil {
			s.yield("hook:orderChars") // between building the alphabet and drawing from it
		}
		return out
	}
	spg.VerifHooks.OrderWords = func(w []string) []string {
		hookCalls.words++
		if curOrders.Words == "native" {
			return w
		}
		// reorder in place: returning a copy would hide a word list that aliases the caller's slice
		copy(w, applyOrder(curOrders.Words, curOrders.Seed, "words", w))
		return w
	}
	spg.VerifHooks.VisitOrder = func(keys []string) []string {
		if curOrders.Visit == "native" || len(keys) > 600 {
			return nil
		}
		var out []string
		switch curOrders.Visit {
		case "twinfirst", "twinlast":
			present := map[string]bool{}
			for _, k := range keys {
				present[k] = true
			}
			var twins, rest []string
			twin := map[string]bool{}
			for _, k := range keys {
				if c := strings.Title(k); c != k && present[c] {
					twin[c] = true
				}
			}
			for _, k := range keys {
				if twin[k] {
					twins = append(twins, k)
				} else {
					rest = append(rest, k)
				}
			}
			if curOrders.Visit == "twinfirst" {
				out = append(twins, rest...)
			} else {
				out = append(rest, twins...)
			}
		default:
			out = applyOrder(curOrders.Visit, curOrders.Seed, "visit", keys)
		}
		// probes
		visitStats.constructions++
		pos := map[string]int{}
		for i, k := range out {
			pos[k] = i
		}
		for _, k := range out {
			c := strings.Title(k)
			if c != k {
				if pc, ok := pos[c]; ok {
					if pc < pos[k] {
						visitStats.twinBeforeLower++
					} else {
						visitStats.twinAfterLower++
					}
				}
			}
		}
		return out
	}
}
