package main

import (
	"crypto/rand"
	"encoding/json"
	"fmt"
	"os"
	"os/exec"
	"path/filepath"
	"runtime"
	"strings"
	"sync"
	"time"
	"unsafe"

	"go.1password.io/spg"
)

// unsyncReader produces varying bytes with plain Go stores and no shared state.
type unsyncReader struct{}

func (unsyncReader) Read(p []byte) (int, error) {
	if len(p) == 0 {
		return 0, nil
	}
	x := uint64(time.Now().UnixNano()) ^ uint64(uintptr(unsafe.Pointer(&p[0])))*0x9e3779b97f4a7c15
	for i := range p {
		p[i] = byte(splitmix64(&x) >> 24)
	}
	return len(p), nil
}

// ---------------------------------------------------------------------------
// C14: recipes, word lists and separator functions are safe to share.
//  (1) controlled interleaving: clients are goroutines released one at a time
//      at the H5 yield points by the seeded scheduler; oracle = isolation
//      equality with a private copy + validity predicates;
//  (2) race mode: the same episode shapes, unsynchronised, under the race
//      detector in a separate -race binary with the real OS reader.
// ---------------------------------------------------------------------------

type COp struct {
	Op string `json:"op"` // gen entropy alphabet sp size
	T  int    `json:"t"`
}

type C14Spec struct {
	Knob    string      `json:"knob,omitempty"` // "zero": the program has set MaxTrials = 0 before the clients start
	Mode    string      `json:"mode"`           // controlled | race
	Shared  []PoolEntry `json:"shared"`
	Clients [][]COp     `json:"clients"`
	Sched   SchedSpec   `json:"sched"`
	Orders  OrderSpec   `json:"orders"`
	Seed    uint64      `json:"seed"`
}

var schedPolicies = []string{"random", "random", "roundrobin", "sequential", "pct", "pct",
	"site:buildCharacterList:afterReset", "site:CharRecipe.Generate:afterBuild", "site:CharRecipe.Generate:beforeFilter", "site:sfWrap", "site:randomUint32", "site:WLRecipe.Entropy:beforeSeparatorFunc"}

func genC14(r *Rng, seed uint64, mode string) *C14Spec {
	s := &C14Spec{Mode: mode, Orders: genOrders(r, seed), Seed: seed}
	s.Orders.Visit = "sorted"
	ns := 1 + r.Intn(3)
	sharedPreset := pick(r, presetNames[1:])
	for i := 0; i < ns; i++ {
		if r.Chance(0.5) {
			cc := genCharCfg(r, charOpt{small: r.Chance(0.6), budget: 3000, maxLen: 8, maxReq: 3, noEmptied: r.Chance(0.7)})
			s.Shared = append(s.Shared, PoolEntry{Char: &cc, Ptr: r.Bool()})
		} else {
			w := genWLCfg(r, wlOpt{list: listOpt{min: 2, max: 7, twins: 0.2, precap: 0.1, caseless: 0.1}, maxLen: 4})
			switch r.Intn(3) {
			case 0: // several recipes sharing one preset, as every real program does
				w.Sep = SepCfg{Kind: "preset", Preset: sharedPreset}
			case 1:
				cc := genCharCfg(r, charOpt{small: true, budget: 30, maxLen: 2, maxReq: 1, noEmptied: r.Chance(0.7)})
				if r.Chance(0.25) {
					cc.Length = 0 // a constructed separator whose recipe cannot generate: yields "" every time
				}
				w.Sep = SepCfg{Kind: "recipe", Recipe: &cc}
			}
			if w.Sep.Kind == "altempty" {
				w.Sep = SepCfg{Kind: "char", Char: "-"}
			}
			s.Shared = append(s.Shared, PoolEntry{WL: &w, Ptr: r.Bool()})
		}
	}
	nc := 2 + r.Intn(7)
	for k := 0; k < nc; k++ {
		var ops []COp
		n := 1 + r.Intn(4)
		for j := 0; j < n; j++ {
			t := r.Intn(ns)
			op := "gen"
			if r.Chance(0.45) {
				if s.Shared[t].Char != nil {
					op = pick(r, []string{"entropy", "alphabet", "sp"})
				} else {
					op = pick(r, []string{"entropy", "size"})
				}
			}
			ops = append(ops, COp{op, t})
		}
		s.Clients = append(s.Clients, ops)
	}
	s.Sched = SchedSpec{Policy: pick(r, schedPolicies), Seed: mix(seed, "sched"), PCTd: 1 + r.Intn(3)}
	if r.Chance(0.08) {
		s.Knob = "zero"
	}
	return s
}

func init() {
	register(&CheckDef{
		ID: "C14", Level: "exploration",
		Technique:   "deterministic simulation of goroutine interleaving: seeded cooperative scheduler releasing one client goroutine at a time at hook yield points (isolation-equality oracle), plus the same episode shapes run unsynchronised under the Go race detector in a separate -race binary",
		Rule:        "case = one API call by one client inside an interleaved episode (controlled mode) or one unsynchronised episode (race mode); distinct_nontrivial = distinct release sequences (hash of the schedule) with at least one context switch, plus race-mode episodes",
		Assumptions: []string{"controlled interleavings are decided only at the hook yield points (which include every random draw); interference that needs a preemption between two yield points is left to race mode", "race mode is repeatable (same seed, same operations on the same shared values, hence the same unsynchronised access pairs) but not bit-deterministic: the OS decides the real interleaving", "race mode uses the real OS reader and no hooks, because a shared tape or a baton would order the clients and hide races"},
		Episodes:    map[string]int{"quick": 6000, "thorough": 480000},
		TwiceEvery:  4,
		Real:        []string{"all exported methods of CharRecipe, WLRecipe, WordList, SFFunction presets and NewSFFunction closures", "golang-set (including its iterator goroutines)", "Go race detector (race mode)"},
		Simulated:   []string{"which client goroutine runs next (controlled mode)", "crypto/rand.Reader: one scripted tape per client (controlled mode only)", "alphabet / word index orders"},
		Gen: func(seed uint64, tier string) interface{} {
			return genC14(Sub(seed, "config"), seed, "controlled")
		},
		Decode: decodeInto[C14Spec],
		Run: func(c *Ctx, si interface{}) {
			s := si.(*C14Spec)
			if s.Mode == "race" {
				replayRace(c, s)
				return
			}
			runC14Controlled(c, s)
		},
		Shrink: func(si interface{}) []interface{} {
			s := si.(*C14Spec)
			if s.Mode == "race" {
				return nil
			}
			var out []interface{}
			// simplify the schedule toward run-to-completion: keep a prefix of the recorded
			// release sequence, run the rest sequentially
			if n := len(s.Sched.Script); n > 0 {
				for _, k := range []int{0, n / 4, n / 2, n * 3 / 4, n - 8, n - 2, n - 1} {
					if k >= 0 && k < n {
						c2 := *s
						c2.Sched.Script = append([]int{}, s.Sched.Script[:k]...)
						c2.Sched.Policy = "sequential"
						out = append(out, &c2)
					}
				}
			}
			for k := range s.Clients {
				if len(s.Clients) > 2 {
					n := *s
					n.Clients = append(append([][]COp{}, s.Clients[:k]...), s.Clients[k+1:]...)
					n.Sched.Script = nil
					out = append(out, &n)
				}
			}
			for k := range s.Clients {
				if len(s.Clients[k]) > 1 {
					n := *s
					n.Clients = append([][]COp{}, s.Clients...)
					n.Clients[k] = s.Clients[k][:len(s.Clients[k])-1]
					out = append(out, &n)
				}
			}
			return out
		},
		ParentExtra: c14RaceMode,
	})
}

type clientResult struct {
	res []OpResult
}

func clientOps(live []*liveEntry, ops []COp, tape *Tape) []OpResult {
	var out []OpResult
	for _, op := range ops {
		e := live[op.T]
		out = append(out, doCall(op.Op, tape, e.char, e.wl, e.ptr))
	}
	return out
}

func buildShared(shared []PoolEntry) []*liveEntry {
	var live []*liveEntry
	for _, p := range shared {
		e, _ := newLive(p)
		if e == nil {
			return nil
		}
		live = append(live, e)
	}
	return live
}

func checkValid(e *liveEntry, res OpResult) (bool, string) {
	if res.Kind != "ok" || res.Pw == nil {
		return true, ""
	}
	if e.char != nil {
		return checkCharPassword(modelChar(e.cfgC), res.Pw)
	}
	x := newWLStructCtx(modelList(e.cfgW.Words).Kept, e.cfgW.Length, e.cfgW.Cap)
	// separator values are not recorded here: structural shape and atoms only
	for _, t := range res.Pw.Tokens {
		if t.T == 1 && !x.kept[t.V] && !x.titled[t.V] {
			return false, fmt.Sprintf("atom %q is not a (title-cased) list word", t.V)
		}
	}
	atoms := 0
	for _, t := range res.Pw.Tokens {
		if t.T == 1 {
			atoms++
		}
	}
	if atoms != e.cfgW.Length && !x.hasEmpty {
		return false, fmt.Sprintf("%d atoms, want %d", atoms, e.cfgW.Length)
	}
	return true, ""
}

func withC14Knob(s *C14Spec, f func()) {
	if s.Knob == "zero" {
		old := spg.MaxTrials
		spg.MaxTrials = 0
		defer func() { spg.MaxTrials = old }()
	}
	f()
}

func runC14Controlled(c *Ctx, s *C14Spec) {
	withC14Knob(s, func() { runC14ControlledInner(c, s) })
	if s.Knob == "zero" && spg.MaxTrials != 200 && spg.MaxTrials != 0 {
		// informational only: knob restoration is the harness's own business
	}
}

func runC14ControlledInner(c *Ctx, s *C14Spec) {
	curOrders = s.Orders
	live := buildShared(s.Shared)
	if live == nil {
		c.Count("shared_unbuildable", 1)
		return
	}
	nc := len(s.Clients)
	tapes := make([]*Tape, nc)
	results := make([][]OpResult, nc)
	ops := make([]func(), nc)
	for k := range s.Clients {
		k := k
		tapes[k] = NewTape(TapeSpec{Mode: "choice", Seed: mix(s.Seed, "client", k), Default: "random"})
		ops[k] = func() { results[k] = clientOps(live, s.Clients[k], tapes[k]) }
	}
	sch := runClients(s.Sched, tapes, ops)
	simr.cur = nil
	c.Count("yields", int64(sch.Yields))
	c.Count("context_switches", int64(sch.Switches))
	for site, n := range sch.Sites {
		c.Count("yield@"+site, int64(n))
	}
	if sch.Switches > 0 {
		c.Distinct(fmt.Sprint(sch.Trace), s.Seed)
	}
	if sch.Sites["buildCharacterList:afterReset"] > 0 && sch.Switches > 0 {
		c.Probe("preemption_possible_between_reset_and_refill_of_required_sets", 1)
	}
	for _, cl := range sch.clients {
		if strings.HasPrefix(cl.site, "panic:") {
			c.Trouble("client %d: %s", cl.id, cl.site)
			return
		}
	}
	// the oracle compares index-dependent results: the alphabet must have passed through hook H2
	for k := range s.Clients {
		for j, op := range s.Clients[k] {
			if op.Op == "gen" && live[op.T].char != nil && results[k][j].Kind == "ok" && len(tapes[k].CharLists) == 0 {
				panic(sentCannotDrive)
			}
		}
	}
	// reference: the same calls, same client tape, on a private copy, alone
	for k := range s.Clients {
		priv := buildShared(s.Shared)
		ref := clientOps(priv, s.Clients[k], NewTape(TapeSpec{Mode: "choice", Seed: mix(s.Seed, "client", k), Default: "random"}))
		for j := range ref {
			c.Eval(1)
			got := results[k][j]
			c.T(got.tkey())
			a, b := got, ref[j]
			a.Out, b.Out = Captured{}, Captured{}
			// byte counts are compared per client at the end (one tape per client)
			a.Tape, b.Tape = &Tape{}, &Tape{}
			if ok, why := resultsEqual(a, b); !ok {
				c.Violate("interference", "", "client %d call %d (%s on shared entry %d %s) under schedule %s/%v differs from the same call on a private copy with the same random bytes: %s", k, j, s.Clients[k][j].Op, s.Clients[k][j].T, describe(live[s.Clients[k][j].T]), s.Sched.Policy, sch.Trace, why)
				n := *s
				n.Sched.Script = append([]int{}, sch.Trace...)
				c.Narrow(&n)
				return
			}
			if ok, why := checkValid(live[s.Clients[k][j].T], got); !ok {
				c.Violate("invalid-under-concurrency", "", "client %d call %d returned %q under schedule %v: %s", k, j, got.Pw.S, sch.Trace, why)
				return
			}
		}
	}
	c.Sample(map[string]interface{}{"shared": len(s.Shared), "clients": s.Clients, "policy": s.Sched.Policy, "schedule": sch.Trace})
}

// ---------------------------------------------------------------------------
// race mode
// ---------------------------------------------------------------------------

func raceBinary() string {
	if sc := os.Getenv("VERIF_SCRATCH"); sc != "" {
		p := filepath.Join(sc, "simcheck-race")
		if _, err := os.Stat(p); err == nil {
			return p
		}
	}
	return ""
}

// raceChildMain: simcheck-race race-child <specs.json> <progress> <reps>
func raceChildMain(args []string) int {
	b, err := os.ReadFile(args[0])
	if err != nil {
		fmt.Println(err)
		return 2
	}
	var specs []C14Spec
	if err := json.Unmarshal(b, &specs); err != nil {
		fmt.Println(err)
		return 2
	}
	reps := 1
	if len(args) > 2 {
		fmt.Sscan(args[2], &reps)
	}
	osReader := rand.Reader
	for i := range specs {
		os.WriteFile(args[1], []byte(fmt.Sprint(i)), 0644)
		// every second episode draws from a reader written in Go that has no synchronisation of
		// its own: the kernel's writes into a buffer are invisible to the race detector, Go stores are not
		if i%2 == 1 {
			rand.Reader = unsyncReader{}
		} else {
			rand.Reader = osReader
		}
		for r := 0; r < reps; r++ {
			if why := raceEpisode(&specs[i]); why != "" {
				fmt.Printf("INVALID episode %d: %s\n", i, why)
				return 3
			}
		}
	}
	os.WriteFile(args[1], []byte("done"), 0644)
	return 0
}

// raceEpisode runs the clients unsynchronised on the shared values with the
// real OS reader and no hooks. Returns a non-empty string if a result is invalid.
func raceEpisode(s *C14Spec) (why string) {
	withC14Knob(s, func() { why = raceEpisodeInner(s) })
	return
}

func raceEpisodeInner(s *C14Spec) string {
	live := buildShared(s.Shared)
	if live == nil {
		return ""
	}
	nc := len(s.Clients)
	results := make([][]OpResult, nc)
	start := make(chan struct{})
	var wg sync.WaitGroup
	for k := 0; k < nc; k++ {
		wg.Add(1)
		go func(k int) {
			defer wg.Done()
			<-start
			var out []OpResult
			for _, op := range s.Clients[k] {
				e := live[op.T]
				out = append(out, raceCall(op.Op, e))
			}
			results[k] = out
		}(k)
	}
	close(start)
	wg.Wait()
	for k := range results {
		for j, res := range results[k] {
			e := live[s.Clients[k][j].T]
			if ok, why := checkValid(e, res); !ok {
				return fmt.Sprintf("client %d call %d returned %q: %s", k, j, res.Pw.S, why)
			}
			if res.Kind == "panic" {
				return fmt.Sprintf("client %d call %d panicked: %s", k, j, res.Panic)
			}
		}
	}
	return ""
}

func raceCall(op string, e *liveEntry) (res OpResult) {
	res.Kind = "ok"
	defer func() {
		if r := recover(); r != nil {
			res.Kind = "panic"
			res.Panic = fmt.Sprint(r)
		}
	}()
	var g spg.Generator
	if e.char != nil {
		g = e.char
	} else {
		g = e.wl
	}
	switch op {
	case "gen":
		p, err := g.Generate()
		if err != nil {
			res.Kind = "error"
			return
		}
		res.Pw = viewPw(p)
	case "entropy":
		res.F = float64(g.Entropy())
	case "alphabet":
		res.S = e.char.Alphabet()
	case "sp":
		res.F = float64(e.char.SuccessProbability())
	case "size":
		res.F = float64(e.wl.Size())
	}
	return
}

func runRaceBatch(c *Ctx, specs []C14Spec, reps int, tag string) (raceIdx int, report string, trouble string) {
	bin := raceBinary()
	if bin == "" {
		return -1, "", "race-mode binary not built (the ./check wrapper builds it for C14)"
	}
	dir := c.scratch
	specFile := filepath.Join(dir, "race-specs-"+tag+".json")
	prog := filepath.Join(dir, "race-progress-"+tag)
	b, _ := json.Marshal(specs)
	os.WriteFile(specFile, b, 0644)
	logp := filepath.Join(dir, "race-log-"+tag)
	cmd := exec.Command(bin, "race-child", specFile, prog, fmt.Sprint(reps))
	cmd.Env = append(os.Environ(), "GORACE=halt_on_error=1 exitcode=66 log_path="+logp, "GOMAXPROCS=4")
	out, err := cmd.CombinedOutput()
	code := 0
	if ee, ok := err.(*exec.ExitError); ok {
		code = ee.ExitCode()
	} else if err != nil {
		return -1, "", err.Error()
	}
	if code == 0 {
		return -1, "", ""
	}
	pi := -1
	if pb, err := os.ReadFile(prog); err == nil {
		fmt.Sscan(string(pb), &pi)
	}
	rep := string(out)
	if m, _ := filepath.Glob(logp + ".*"); len(m) > 0 {
		if lb, err := os.ReadFile(m[0]); err == nil {
			rep += string(lb)
		}
		for _, f := range m {
			os.Remove(f)
		}
	}
	if code == 66 || strings.Contains(rep, "DATA RACE") || strings.Contains(rep, "concurrent map") || code == 3 {
		return pi, rep, ""
	}
	return pi, rep, fmt.Sprintf("race child exited %d: %s", code, tail(rep, 1500))
}

func raceSummary(rep string) string {
	var keep []string
	for _, l := range strings.Split(rep, "\n") {
		t := strings.TrimSpace(l)
		if strings.Contains(t, "DATA RACE") || strings.HasPrefix(t, "Write at") || strings.HasPrefix(t, "Read at") || strings.HasPrefix(t, "Previous") || strings.Contains(t, "go.1password.io/spg.") || strings.Contains(t, "INVALID") || strings.Contains(t, "concurrent map") {
			keep = append(keep, t)
		}
		if len(keep) > 14 {
			break
		}
	}
	return strings.Join(keep, " | ")
}

func c14RaceMode(c *Ctx, tier string, seed uint64) {
	n := 1200
	if tier == "thorough" {
		n = 60000
	}
	W := runtime.NumCPU() / 4
	if W < 1 {
		W = 1
	}
	if W > 4 {
		W = 4
	}
	type res struct {
		specs   []C14Spec
		idx     int
		rep     string
		trouble string
	}
	ch := make(chan res, W)
	for w := 0; w < W; w++ {
		var specs []C14Spec
		for i := w; i < n; i += W {
			es := mix(seed, "race", i)
			specs = append(specs, *genC14(Sub(es, "config"), es, "race"))
		}
		go func(w int, specs []C14Spec) {
			idx, rep, tr := runRaceBatch(c, specs, 2, fmt.Sprint(w))
			ch <- res{specs, idx, rep, tr}
		}(w, specs)
	}
	for w := 0; w < W; w++ {
		r := <-ch
		c.st.Counters["race_mode_episodes"] += int64(len(r.specs))
		c.st.Evals += int64(len(r.specs))
		for i := range r.specs {
			c.Distinct("race", r.specs[i].Seed)
		}
		if r.trouble != "" {
			c.Trouble("race mode: %s", r.trouble)
			continue
		}
		if r.idx >= 0 && r.idx < len(r.specs) {
			sp := r.specs[r.idx]
			c.vspec = &sp
			c.seed = sp.Seed
			c.Violate("data-race", "", "race mode episode (shared %d values, %d clients): %s", len(sp.Shared), len(sp.Clients), raceSummary(r.rep))
			c.vspec = nil
		}
	}
	c.st.Faults["unsynchronised_start_barrier_episodes"] += int64(n)
}

// replayRace re-runs one race-mode episode many times under the race detector.
func replayRace(c *Ctx, s *C14Spec) {
	idx, rep, trouble := runRaceBatch(c, []C14Spec{*s}, 60, "replay")
	if trouble != "" {
		c.Trouble("race replay: %s", trouble)
		return
	}
	if idx >= 0 {
		c.Violate("data-race", "", "race mode episode: %s", raceSummary(rep))
	}
}
