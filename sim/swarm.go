package main

import (
	"math/big"
	"strings"
	"unicode/utf8"
)

// ---------------------------------------------------------------------------
// Swarm configuration generator (shared by all checks). Each configuration
// enables a random subset of features so that overlaps, duplicates, emptied
// sets and multi-byte characters are frequent.
// ---------------------------------------------------------------------------

func ratFrac(a, b int64) *big.Rat { return big.NewRat(a, b) }

var asciiPool = runes("abcdXYZ0159!-_abcdXYZ0159!-_ ,") // space and comma occasionally: typical join separators of naive cache keys
var multiPool = runes("éßλ正💩́ÿЖ")
var taintPool = runes("éßλ正💩ÿЖשд語ñø") // runes that occur in none of the library's diagnostics

func randRunes(r *Rng, pool []string, min, max int, dupChance float64) string {
	n := min
	if max > min {
		n += r.Intn(max - min + 1)
	}
	var b strings.Builder
	var last string
	for i := 0; i < n; i++ {
		c := pick(r, pool)
		if last != "" && r.Chance(dupChance) {
			c = last
		}
		b.WriteString(c)
		last = c
	}
	return b.String()
}

type charOpt struct {
	small     bool  // sweepable: |A|^L <= budget
	budget    int64 // max |A|^L when small
	maxLen    int
	taint     bool // only tainted (non-ASCII, non-diagnostic) runes, no class flags
	maxReq    int
	noEmptied bool // avoid required sets that exclusion empties
}

func genCharCfg(r *Rng, o charOpt) CharCfg {
	for attempt := 0; ; attempt++ {
		c := genCharCfgOnce(r, o)
		m := modelChar(c)
		if o.noEmptied && m.Emptied > 0 {
			continue
		}
		if o.small {
			for c.Length > 1 {
				m = modelChar(c)
				sp := m.SpaceSize()
				if sp.IsInt64() && sp.Int64() <= o.budget {
					break
				}
				c.Length--
			}
			m = modelChar(c)
			sp := m.SpaceSize()
			if !(sp.IsInt64() && sp.Int64() <= o.budget) {
				continue
			}
		}
		if len(m.Req) > o.maxReq && o.maxReq > 0 {
			continue
		}
		return c
	}
}

func genCharCfgOnce(r *Rng, o charOpt) CharCfg {
	var c CharCfg
	pool := asciiPool
	if o.taint {
		pool = taintPool
	} else if r.Chance(0.5) {
		pool = append(append([]string{}, asciiPool...), multiPool...)
	}
	maxLen := o.maxLen
	if maxLen < 1 {
		maxLen = 6
	}
	c.Length = 1 + r.Intn(maxLen)
	if o.small {
		// custom strings dominate; class flags only occasionally (they are big)
		c.AllowChars = randRunes(r, pool, 0, 5, 0.25)
		if !o.taint && r.Chance(0.25) {
			c.Allow = pick(r, []uint32{4, 8, 16, 12})
		}
		nreq := r.Intn(4)
		if r.Chance(0.35) {
			nreq = 0
		}
		for i := 0; i < nreq; i++ {
			if r.Chance(0.1) {
				c.RequireSets = append(c.RequireSets, "")
			} else {
				c.RequireSets = append(c.RequireSets, randRunes(r, pool, 1, 3, 0.2))
			}
		}
		if !o.taint && r.Chance(0.15) {
			c.Require = pick(r, []uint32{4, 8, 16})
		}
		if r.Chance(0.4) {
			c.ExcludeChars = randRunes(r, pool, 1, 2, 0.1)
		}
		if !o.taint && r.Chance(0.2) {
			c.Exclude = pick(r, []uint32{16, 4, 8})
		}
		// make sure something is allowed most of the time
		if c.AllowChars == "" && c.Allow == 0 && len(c.RequireSets) == 0 && c.Require == 0 && r.Chance(0.9) {
			c.AllowChars = randRunes(r, pool, 1, 4, 0.2)
		}
		return c
	}
	// large ("walk") recipes: any flag triple, custom strings on top
	if !o.taint {
		c.Allow = uint32(r.Intn(32))
		c.Require = uint32(r.Intn(32))
		c.Exclude = uint32(r.Intn(32))
		if r.Chance(0.5) {
			c.Require &= uint32(r.Intn(32)) // fewer required classes
		}
		if r.Chance(0.6) {
			c.Exclude &= uint32(r.Intn(32))
		}
	}
	if r.Chance(0.6) {
		c.AllowChars = randRunes(r, pool, 0, 8, 0.25)
	}
	if r.Chance(0.5) {
		n := r.Intn(3)
		for i := 0; i < n; i++ {
			c.RequireSets = append(c.RequireSets, randRunes(r, pool, 1, 4, 0.2))
		}
	}
	if r.Chance(0.4) {
		c.ExcludeChars = randRunes(r, pool, 1, 3, 0.1)
	}
	return c
}

// ---------------------------------------------------------------------------
// word lists
// ---------------------------------------------------------------------------

var stemPool = []string{"ka", "lo", "mi", "zu", "polish", "apple", "reno", "éa", "naïve", "ßa", "λx", "две", "ñu", "two words", "re-do", "o'k", "#tag", "X-ray", "O'neil", "-x", "4 x", "_y", "9 lives", "iPhone", "NASA", "eBay", "50%", "%d", "ka\r", " lo", "zu ", "ǉubav", "ǆem", "ǳa", "ნახვა", "ÿoga", "µm", "ἀλφα"}
var caselessPool = []string{"4", "正確", "42", "💩", "-", "語"}
var taintStems = []string{"éa", "ñu", "λx", "две", "øre", "שלום", "語", "正確", "ÿß", "жук", "ñandú", "éßλ"}

type listOpt struct {
	min, max    int
	twins       float64 // chance a stem also appears title-cased
	precap      float64 // chance a stem appears only title-cased
	caseless    float64
	dups        float64
	emptyWord   float64
	taint       bool
	forceAllCap bool    // every kept word must change under title-casing
	raw         float64 // probability of a word that is not valid UTF-8 (C04, C05, C06 only; see escWord)
}

// Words that are not valid UTF-8 (Latin-1 bytes, truncated sequences). Configurations are written to
// JSON (replay files), which cannot carry such strings: in a configuration each invalid byte b is
// written as the private-use rune U+F700+b (escWord) and turned back into the byte where the real
// list and the model are built (realWords, called by WLCfg.build and modelList).
var rawStems = []string{"caf\xe9", "\xffa", "na\xc3", "b\xa9\xa9", "\xe9t\xe9", "x\xe2\x82"}

func escWord(w string) string {
	if utf8.ValidString(w) {
		return w
	}
	var sb strings.Builder
	for i := 0; i < len(w); {
		r, sz := utf8.DecodeRuneInString(w[i:])
		if r == utf8.RuneError && sz == 1 {
			sb.WriteRune(0xF700 + rune(w[i]))
		} else {
			sb.WriteString(w[i : i+sz])
		}
		i += sz
	}
	return sb.String()
}

func realWord(w string) string {
	if !hasEscRune(w) {
		return w
	}
	var sb strings.Builder
	for _, r := range w {
		if r >= 0xF780 && r <= 0xF7FF {
			sb.WriteByte(byte(r - 0xF700))
		} else {
			sb.WriteRune(r)
		}
	}
	return sb.String()
}

func hasEscRune(w string) bool {
	for _, r := range w {
		if r >= 0xF780 && r <= 0xF7FF {
			return true
		}
	}
	return false
}

// realWords returns the list with escaped bytes restored (the slice itself when nothing is escaped).
func realWords(ws []string) []string {
	any := false
	for _, w := range ws {
		if hasEscRune(w) {
			any = true
			break
		}
	}
	if !any {
		return ws
	}
	out := make([]string, len(ws))
	for i, w := range ws {
		out[i] = realWord(w)
	}
	return out
}

// genWords returns an input list (with duplicates, twins, ...). All kept
// words satisfy the C04/C06 premise by construction: variants of a stem are
// only the stem itself and its title-cased form.
func genWords(r *Rng, o listOpt) []string {
	n := o.min
	if o.max > o.min {
		n += r.Intn(o.max - o.min + 1)
	}
	pool := stemPool
	if o.taint {
		pool = taintStems
	}
	perm := r.Perm(len(pool))
	var out []string
	used := 0
	var forced []string
	if o.raw > 0 && r.Chance(o.raw) {
		forced = append(forced, pick(r, rawStems))
		if r.Chance(0.3) {
			forced = append(forced, pick(r, rawStems))
		}
	}
	for len(out) < n {
		var stem string
		if len(forced) > 0 {
			stem, forced = forced[0], forced[1:]
			used--
		} else if used < len(perm) {
			stem = pool[perm[used]]
		} else {
			// synthesize extra stems
			stem = pool[perm[used%len(perm)]] + string(rune('a'+(used/len(perm))%26)) + string(rune('a'+(used/len(perm)/26)%26))
		}
		used++
		title := strings.Title(stem)
		switch {
		case !o.forceAllCap && !o.taint && r.Chance(o.caseless):
			out = append(out, pick(r, caselessPool))
		case title != stem && r.Chance(o.twins):
			out = append(out, stem, title)
		case !o.forceAllCap && title != stem && r.Chance(o.precap):
			out = append(out, title)
		default:
			if o.forceAllCap && title == stem {
				continue
			}
			out = append(out, stem)
		}
		if r.Chance(o.dups) {
			out = append(out, pick(r, out))
		}
	}
	if r.Chance(o.emptyWord) {
		out = append(out, "")
	}
	// shuffle
	p := r.Perm(len(out))
	sh := make([]string, len(out))
	for i, j := range p {
		sh[i] = escWord(out[j])
	}
	return sh
}

var capSchemes = []string{"none", "first", "all", "random", "one"}

type wlOpt struct {
	list       listOpt
	maxLen     int
	sweepable  bool // separators with an enumerable law only
	taint      bool
	allowFancy bool // altempty etc.
}

func genSep(r *Rng, o wlOpt) SepCfg {
	pool := asciiPool
	if o.taint {
		pool = taintPool
	}
	k := r.Intn(10)
	switch {
	case k < 3:
		ch := ""
		if r.Chance(0.8) {
			ch = randRunes(r, append(append([]string{}, pool...), multiPool[:3]...), 1, 2, 0)
			if o.taint {
				ch = randRunes(r, pool, 1, 2, 0)
			}
		}
		return SepCfg{Kind: "char", Char: ch}
	case k < 6 && !o.taint:
		return SepCfg{Kind: "preset", Preset: pick(r, presetNames)}
	case k < 8:
		if !o.taint && r.Chance(0.2) {
			// a separator recipe the library refuses every time (requirement too unlikely): the
			// separator function yields "" with entropy 0
			c := CharCfg{Length: 1 + r.Intn(2), Allow: pick(r, []uint32{3, 7, 1}), RequireSets: []string{pick(r, []string{"7", "!", "é"})}}
			return SepCfg{Kind: "recipe", Recipe: &c}
		}
		c := genCharCfg(r, charOpt{small: true, budget: 12, maxLen: 2, taint: o.taint, maxReq: 1, noEmptied: r.Chance(0.7)})
		if o.sweepable {
			c.RequireSets = nil
			c.Require = 0
			if modelChar(c).SpaceSize().Sign() == 0 {
				c.AllowChars = pick(r, pool)
			}
		}
		return SepCfg{Kind: "recipe", Recipe: &c}
	case k < 9:
		vals := []string{pick(r, pool), ""}
		if r.Chance(0.5) {
			vals = append(vals, pick(r, pool)+pick(r, pool))
		}
		// distinct values only (the closure reports log2(len))
		seen := map[string]bool{}
		var d []string
		for _, v := range vals {
			if !seen[v] {
				seen[v] = true
				d = append(d, v)
			}
		}
		return SepCfg{Kind: "draw", Vals: d}
	default:
		if o.allowFancy {
			return SepCfg{Kind: "altempty", Char: pick(r, pool)}
		}
		return SepCfg{Kind: "char", Char: pick(r, pool)}
	}
}

func genWLCfg(r *Rng, o wlOpt) WLCfg {
	lo := o.list
	lo.taint = o.taint
	c := WLCfg{Words: genWords(r, lo)}
	ml := o.maxLen
	if ml < 1 {
		ml = 4
	}
	c.Length = 1 + r.Intn(ml)
	c.Cap = pick(r, capSchemes)
	if r.Chance(0.08) {
		// scheme strings that are not one of the five constants select no capitalisation at all
		c.Cap = pick(r, []string{"Random", "RANDOM", "One", "ALL", "First", "random "})
	}
	c.Sep = genSep(r, o)
	if c.Sep.Kind != "char" && r.Chance(0.15) {
		c.AlsoChar = pick(r, []string{"+", "/", "é"})
		if o.taint {
			c.AlsoChar = pick(r, taintPool)
		}
	}
	return c
}

// charSiblings returns recipes that differ from c in meaning but collide with it under
// the cache keys a hurried memoisation would use: the same characters regrouped into
// different required sets (same concatenation), sets split or merged at a space or a
// comma (fmt.Sprint / strings.Join keys), characters moved across the boundary between
// two custom strings.
func charSiblings(r *Rng, c CharCfg) []CharCfg {
	var out []CharCfg
	clone := func() CharCfg {
		n := c
		n.RequireSets = append([]string{}, c.RequireSets...)
		return n
	}
	cat := strings.Join(c.RequireSets, "")
	rs := runes(cat)
	if len(rs) >= 2 {
		// one set with everything
		n := clone()
		n.RequireSets = []string{cat}
		out = append(out, n)
		// singletons
		n = clone()
		n.RequireSets = append([]string{}, rs...)
		if len(n.RequireSets) <= 6 {
			out = append(out, n)
		}
		// a random two-way split
		k := 1 + r.Intn(len(rs)-1)
		n = clone()
		n.RequireSets = []string{strings.Join(rs[:k], ""), strings.Join(rs[k:], "")}
		out = append(out, n)
	}
	for _, sep := range []string{" ", ","} {
		// split a set at the separator
		for i, set := range c.RequireSets {
			if parts := strings.Split(set, sep); len(parts) > 1 {
				n := clone()
				var rs2 []string
				rs2 = append(rs2, c.RequireSets[:i]...)
				for _, p := range parts {
					rs2 = append(rs2, p)
				}
				rs2 = append(rs2, c.RequireSets[i+1:]...)
				n.RequireSets = rs2
				out = append(out, n)
			}
		}
		// merge two adjacent sets with the separator between them
		if len(c.RequireSets) >= 2 {
			i := r.Intn(len(c.RequireSets) - 1)
			n := clone()
			merged := c.RequireSets[i] + sep + c.RequireSets[i+1]
			n.RequireSets = append(append(append([]string{}, c.RequireSets[:i]...), merged), c.RequireSets[i+2:]...)
			out = append(out, n)
		}
	}
	// move a character across the AllowChars / ExcludeChars boundary
	if a := runes(c.AllowChars); len(a) > 0 {
		n := clone()
		n.AllowChars = strings.Join(a[:len(a)-1], "")
		n.ExcludeChars = a[len(a)-1] + c.ExcludeChars
		out = append(out, n)
	}
	if len(c.RequireSets) > 0 {
		if f := runes(c.RequireSets[0]); len(f) > 0 {
			n := clone()
			n.AllowChars = c.AllowChars + f[0]
			n.RequireSets[0] = strings.Join(f[1:], "")
			out = append(out, n)
		}
	}
	return out
}

// bigAlphabet returns n consecutive CJK characters (alphabets of a few hundred characters:
// term sizes near powers of two in the counting arithmetic).
func bigAlphabet(r *Rng, n int) string {
	var b strings.Builder
	start := 0x4E00 + r.Intn(2000)
	for i := 0; i < n; i++ {
		b.WriteRune(rune(start + i))
	}
	return b.String()
}

// genManyReqCfg: more required sets than any shortcut threshold is likely to sit at (11-12), short
// passwords over a small alphabet so that every order of the inclusion-exclusion sum matters.
func genManyReqCfg(r *Rng) CharCfg {
	k := 11 + r.Intn(2)
	pool := runes("abcdefghijklmnopqrstuvwxyz")
	var sets []string
	for i := 0; i < k; i++ {
		if r.Chance(0.7) {
			sets = append(sets, pool[i])
		} else {
			sets = append(sets, pool[i]+pool[(i+1+r.Intn(5))%len(pool)])
		}
	}
	return CharCfg{Length: k + r.Intn(10), AllowChars: pick(r, []string{"", "", "0123", "xyz", "a"}), RequireSets: sets}
}

// genLargeCharCfg: long passwords and / or big alphabets with a few small requirements.
func genLargeCharCfg(r *Rng) CharCfg {
	if r.Chance(0.04) {
		return genManyReqCfg(r)
	}
	c := genCharCfg(r, charOpt{maxLen: 24, maxReq: 3, noEmptied: r.Chance(0.7)})
	c.Length = pick(r, []int{4, 8, 8, 16, 32, 64, 100, 127, 128, 129, 150, 200, 256, 300})
	if r.Chance(0.01) {
		c.Length = pick(r, []int{32767, 32768, 33000, 40000})
	}
	switch r.Intn(4) {
	case 0:
		c.AllowChars += bigAlphabet(r, pick(r, []int{200, 235, 240, 250, 255, 256, 300, 400}))
	case 1:
		c.Allow |= 15
		c.Exclude = 16
	}
	if len(c.RequireSets) == 0 && c.Require == 0 {
		c.RequireSets = []string{randRunes(r, asciiPool[:14], 1, 3, 0)}
	}
	return c
}
