package main

import (
	"fmt"
	"math"
	"math/big"
	"sort"

	"go.1password.io/spg"
)

// ---------------------------------------------------------------------------
// C04 (wordlist choices uniform and independent) and C06 (entropy never
// overstates). Both rest on complete choice-tree sweeps: the exact law of the
// real generator, pushed forward to typed token sequences, is compared with
// the model law (C04) and with 2^-Entropy (C06).
// ---------------------------------------------------------------------------

type C04Spec struct {
	WL     WLCfg     `json:"wl"`
	Orders OrderSpec `json:"orders"`
	Budget int       `json:"budget"`
	Seed   uint64    `json:"seed"`
}

type wlSweep struct {
	law      Law
	leaves   int
	complete bool
	bad      string
	entropy  map[float32]int // Password.Entropy values seen
	hRecipe  float32
	hOK      bool
}

// sweepWL sweeps the complete choice tree of one wordlist recipe.
func sweepWL(c *Ctx, b builtWL, budget int) wlSweep {
	ws := wlSweep{law: Law{}, entropy: map[float32]int{}}
	op := func(t *Tape) OpResult { return genOp(t, b.Recipe) }
	// pilot: bound the tree size along the all-zero path
	bounds, _, pres := pilotBounds(sweepCfg{}, op)
	if pres.Kind != "ok" {
		ws.bad = "pilot: " + pres.brief()
		return ws
	}
	size := 1.0
	for _, n := range bounds {
		size *= float64(n)
	}
	if size > float64(budget) {
		ws.bad = "too-large"
		return ws
	}
	ws.leaves, ws.complete = sweep(sweepCfg{MaxLeaves: budget * 3}, op, func(l *Leaf) bool {
		c.T(l.Res.tkey())
		if l.Res.Kind != "ok" {
			if ws.bad == "" {
				ws.bad = fmt.Sprintf("path %v: %s", l.Path, l.Res.brief())
			}
			return false
		}
		ws.law.add(l.Res.Pw.key(), l.P)
		ws.entropy[l.Res.Pw.Entropy]++
		return true
	})
	e := entropyOp(NewTape(TapeSpec{Mode: "choice", Default: "zero"}), b.Recipe)
	if e.Kind == "ok" {
		ws.hRecipe = float32(e.F)
		ws.hOK = true
	}
	return ws
}

func genSweepableWL(r *Rng, budget int, forC06 bool) WLCfg {
	for {
		lo := listOpt{min: 1, max: 7, twins: 0.2, precap: 0.15, caseless: 0.15, dups: 0.15, raw: 0.06}
		if r.Chance(0.35) {
			lo.forceAllCap = true
		}
		w := genWLCfg(r, wlOpt{list: lo, maxLen: 4, sweepable: true, taint: r.Chance(0.15)})
		ml := modelList(w.Words)
		if !ml.premiseOK() {
			continue
		}
		law := w.Sep.law()
		if law == nil {
			continue
		}
		for w.Length > 1 && wlTreeSize(len(ml.Kept), w.Length, w.Cap, len(law.Vals), w.Sep) > float64(budget) {
			w.Length--
		}
		if wlTreeSize(len(ml.Kept), w.Length, w.Cap, len(law.Vals), w.Sep) > float64(budget) {
			continue
		}
		return w
	}
}

// wlTreeSize estimates the number of leaves (including the trailing separator
// generation the real Generate performs when it asks the recipe's entropy).
func wlTreeSize(n, L int, scheme string, sepVals int, sep SepCfg) float64 {
	s := math.Pow(float64(n), float64(L))
	switch scheme {
	case "one":
		s *= float64(L)
	case "random":
		s *= math.Pow(2, float64(L))
	}
	if sep.Kind != "char" && !(sep.Kind == "preset" && sep.Preset == "SFNone") {
		s *= math.Pow(float64(sepVals), float64(L)) // L-1 gaps + 1 trailing call
	}
	return s
}

func decodeKey(k string) string { return k }

func init() {
	register(&CheckDef{
		ID: "C04", Level: "exploration",
		Technique:   "deterministic simulation: complete choice-tree sweeps of seeded small wordlist recipes on the scripted tape; exact rational law of typed token sequences vs the product-form reference law",
		Rule:        "case = one leaf (complete choice path of one WLRecipe.Generate call); evaluations = leaves executed; distinct_nontrivial = distinct configurations swept completely with at least 2 possible passwords",
		Assumptions: []string{"leaves are weighted by prod 1/n_i (C01)", "title-casing is strings.Title; separator recipes are uniform over their strings (C02)", "word lists respect the statement's premise by construction"},
		Episodes:    map[string]int{"quick": 2400, "thorough": 36000},
		TwiceEvery:  8,
		Real:        []string{"WLRecipe.Generate/Entropy", "NewWordList", "separator presets / NewSFFunction / CharRecipe.Generate", "randomUint32n"},
		Simulated:   []string{"crypto/rand.Reader (choice tape, swept)", "word/alphabet index order (H2/H3)", "NewWordList visit order (H4)"},
		Gen: func(seed uint64, tier string) interface{} {
			r := Sub(seed, "config")
			budget := 2500
			if tier == "thorough" {
				budget = pick(r, []int{2500, 8000, 60000})
			}
			s := &C04Spec{WL: genSweepableWL(r, budget, false), Orders: genOrders(r, seed), Budget: budget, Seed: seed}
			if s.WL.Sep.Kind == "draw" && r.Bool() {
				s.WL.Sep.Kind = "draw0" // same draws, but the function reports entropy 0: each gap is still a fresh draw
			}
			return s
		},
		Decode: decodeInto[C04Spec],
		Run:    runC04,
		Shrink: func(si interface{}) []interface{} {
			s := si.(*C04Spec)
			var out []interface{}
			for _, w := range shrinkWLCfg(s.WL) {
				n := *s
				n.WL = w
				out = append(out, &n)
			}
			return out
		},
	})
	register(&CheckDef{
		ID: "C06", Level: "exploration",
		Technique:   "deterministic simulation: exact output law from complete choice-tree sweeps (wordlist recipes: whole tree; character recipes: first candidate level renormalised by the rejected mass) compared with 2^-Entropy()",
		Rule:        "case = one leaf of a swept configuration; evaluations = leaves executed; distinct_nontrivial = distinct configurations whose exact maximal output probability was compared with the reported entropy",
		Assumptions: []string{"leaves are weighted by prod 1/n_i (C01)", "character recipes: retries are memoryless, so the final law is the first-level law divided by (1 - rejected mass) (supported by C02's level sweeps)", "tolerance: max(1e-4, 4 ulp of the float32 value) bits"},
		Episodes:    map[string]int{"quick": 3000, "thorough": 30000},
		TwiceEvery:  8,
		Real:        []string{"WLRecipe.Generate/Entropy", "CharRecipe.Generate/Entropy", "NewWordList", "separator functions"},
		Simulated:   []string{"crypto/rand.Reader (choice tape, swept)", "word/alphabet index order (H2/H3)", "NewWordList visit order (H4)"},
		Gen: func(seed uint64, tier string) interface{} {
			r := Sub(seed, "config")
			budget := 2000
			if tier == "thorough" {
				budget = pick(r, []int{2000, 8000, 40000})
			}
			s := &C06Spec{Orders: genOrders(r, seed), Budget: budget, Seed: seed}
			if r.Chance(0.25) {
				s.Large = true
				if r.Chance(0.6) {
					cc := genLargeCharCfg(r)
					s.Char = &cc
				} else {
					w := genWLCfg(r, wlOpt{list: listOpt{min: 1, max: 9, twins: 0.2, precap: 0.15, caseless: 0.15, dups: 0.1, raw: 0.06}, maxLen: 4})
					if w.Sep.Kind == "altempty" || w.Sep.law() == nil {
						w.Sep = SepCfg{Kind: "preset", Preset: pick(r, presetNames)}
					}
					w.Length = pick(r, []int{5, 17, 40, 64, 72, 73, 100, 237, 300, 647, 700})
					if r.Chance(0.4) {
						s.Shipped = pick(r, []string{"words", "syllables"})
						s.Orders.Visit, s.Orders.Words = "native", "sorted"
						w.Words = nil
					}
					s.WL = &w
				}
				return s
			}
			if r.Chance(0.45) {
				cc := genCharCfg(r, charOpt{small: true, budget: int64(budget), maxLen: 6, maxReq: 4, noEmptied: r.Chance(0.7)})
				s.Char = &cc
			} else {
				w := genSweepableWL(r, budget, true)
				if r.Chance(0.5) {
					w.Cap = pick(r, []string{"one", "random"})
					for w.Length > 1 && wlTreeSize(len(modelList(w.Words).Kept), w.Length, w.Cap, len(w.Sep.law().Vals), w.Sep) > float64(budget) {
						w.Length--
					}
				}
				s.WL = &w
			}
			return s
		},
		Decode: decodeInto[C06Spec],
		Run:    runC06,
		Shrink: func(si interface{}) []interface{} {
			s := si.(*C06Spec)
			var out []interface{}
			if s.WL != nil {
				for _, w := range shrinkWLCfg(*s.WL) {
					n := *s
					ww := w
					n.WL = &ww
					out = append(out, &n)
				}
			}
			if s.Char != nil {
				for _, cc := range shrinkCharCfg(*s.Char) {
					n := *s
					c2 := cc
					n.Char = &c2
					out = append(out, &n)
				}
			}
			return out
		},
	})
}

func runC04(c *Ctx, si interface{}) {
	s := si.(*C04Spec)
	curOrders = s.Orders
	b := s.WL.build()
	if b.List == nil {
		c.Count("list_refused", 1)
		return
	}
	ml := modelList(s.WL.Words)
	sl := s.WL.Sep.law()
	if sl == nil {
		c.Count("separator_law_unknown", 1)
		return
	}
	ws := sweepWL(c, b, s.Budget)
	c.Eval(int64(ws.leaves))
	c.Count("leaves", int64(ws.leaves))
	if ws.bad == "too-large" {
		c.Count("config_too_large", 1)
		return
	}
	if ws.bad != "" {
		c.Violate("bad-leaf", "", "%s: %s", s.WL, ws.bad)
		return
	}
	if !ws.complete {
		c.Count("sweep_incomplete", 1)
		return
	}
	model := wlLaw(ml.Kept, s.WL.Length, s.WL.Cap, sl)
	if len(model) >= 2 {
		c.Distinct(s.WL.String(), s.Orders.Words)
	}
	c.Count("sweeps_complete", 1)
	if !ml.AllCap && (s.WL.Cap == "one" || s.WL.Cap == "random") {
		c.Probe("non_uniform_law_with_fixed_point_words", 1)
	}
	if why := compareLaws(ws.law, model); why != "" {
		c.Violate("law-differs", "", "%s (kept %q): %s", s.WL, ml.Kept, why)
		return
	}
	c.Sample(map[string]interface{}{"recipe": s.WL.String(), "kept": ml.Kept, "leaves": ws.leaves, "distinct_passwords": len(model)})
}

func compareLaws(got, want Law) string {
	keys := map[string]bool{}
	for k := range got {
		keys[k] = true
	}
	for k := range want {
		keys[k] = true
	}
	ks := make([]string, 0, len(keys))
	for k := range keys {
		ks = append(ks, k)
	}
	sort.Strings(ks)
	for _, k := range ks {
		g, gok := got[k]
		w, wok := want[k]
		switch {
		case !gok:
			return fmt.Sprintf("password %s should have probability %s but is never generated", k, w.RatString())
		case !wok:
			return fmt.Sprintf("password %s is generated (probability %s) but is not a possible password of the recipe", k, g.RatString())
		case g.Cmp(w) != 0:
			return fmt.Sprintf("password %s has probability %s, the recipe's law gives %s", k, g.RatString(), w.RatString())
		}
	}
	return ""
}

type C06Spec struct {
	Large   bool      `json:"large,omitempty"` // too large to sweep: reported entropy vs the model's exact count / formula
	Shipped string    `json:"shipped,omitempty"`
	WL      *WLCfg    `json:"wl,omitempty"`
	Char    *CharCfg  `json:"char,omitempty"`
	Orders  OrderSpec `json:"orders"`
	Budget  int       `json:"budget"`
	Seed    uint64    `json:"seed"`
}

// checkEntropyBound: pmax is the exact maximal output probability.
func checkEntropyBound(c *Ctx, what string, pmax *big.Rat, h float32, uniform bool) bool {
	H := float64(h)
	if math.IsNaN(H) {
		c.Violate("entropy-nan", "", "%s: Entropy() is NaN", what)
		return false
	}
	minEnt := -log2Rat(pmax)
	tol := entTol(H)
	if minEnt < H-tol {
		c.Violate("entropy-overstated", "", "%s: Entropy() = %v bits but a password has probability %s = 2^-%.6f", what, h, pmax.RatString(), minEnt)
		return false
	}
	if minEnt > H+tol {
		c.Violate("entropy-not-tight", "", "%s: Entropy() = %v bits but the most likely password has probability %s = 2^-%.6f (the reported value must be the min-entropy; uniform=%v)", what, h, pmax.RatString(), minEnt, uniform)
		return false
	}
	return true
}

func runC06(c *Ctx, si interface{}) {
	s := si.(*C06Spec)
	curOrders = s.Orders
	if s.Large {
		runC06Large(c, s)
		return
	}
	if s.WL != nil {
		b := s.WL.build()
		if b.List == nil {
			c.Count("list_refused", 1)
			return
		}
		ml := modelList(s.WL.Words)
		if !ml.premiseOK() {
			c.Count("premise_violated_skipped", 1)
			return
		}
		ws := sweepWL(c, b, s.Budget)
		c.Eval(int64(ws.leaves))
		c.Count("leaves", int64(ws.leaves))
		if ws.bad == "too-large" {
			c.Count("config_too_large", 1)
			return
		}
		if ws.bad != "" || !ws.complete || !ws.hOK {
			c.Count("sweep_unusable", 1)
			return
		}
		for e := range ws.entropy {
			if e != ws.hRecipe && !(e != e && ws.hRecipe != ws.hRecipe) {
				c.Violate("password-entropy-field", "", "%s: Password.Entropy = %v but Entropy() = %v", s.WL, e, ws.hRecipe)
				return
			}
		}
		_, pmax := ws.law.max()
		uniform := true
		for _, p := range ws.law {
			if p.Cmp(pmax) != 0 {
				uniform = false
			}
		}
		c.Distinct("wl", s.WL.String())
		c.Count("wl_configs_compared", 1)
		if !uniform {
			c.Probe("non_uniform_law_min_entropy_case", 1)
		}
		if !checkEntropyBound(c, s.WL.String()+fmt.Sprintf(" (kept %q)", ml.Kept), pmax, ws.hRecipe, uniform) {
			return
		}
		c.Sample(map[string]interface{}{"recipe": s.WL.String(), "entropy": ws.hRecipe, "max_probability": pmax.RatString(), "uniform": uniform})
		return
	}
	// character recipe
	rec := s.Char.Recipe()
	if s.Seed%2 == 0 {
		warmSiblings(c, s.Seed, *s.Char)
	}
	p := prepareChar(c, *s.Char, rec, s.Seed)
	if p.refuse != "" || p.good == nil || len(p.S) == 0 {
		c.Count("recipe_refused_or_unusable", 1)
		return
	}
	cont := append(append(append([]uint32{}, p.good...), p.good...), p.good...)
	ll := sweepCharLevel(c, rec, s.Char.Length, nil, cont, s.Budget*4, Sub(s.Seed, "lv"), p.S)
	c.Eval(int64(ll.leaves))
	c.Count("leaves", int64(ll.leaves))
	if ll.badLeaf != "" || !ll.complete || len(ll.law) == 0 {
		c.Count("sweep_unusable", 1)
		return
	}
	e := entropyOp(NewTape(TapeSpec{Mode: "raw"}), rec)
	if e.Kind != "ok" {
		c.Count("entropy_panicked", 1)
		return
	}
	if p.pilot.Pw.Entropy != float32(e.F) && !(math.IsNaN(e.F) && p.pilot.Pw.Entropy != p.pilot.Pw.Entropy) {
		c.Violate("password-entropy-field", "", "%s: Password.Entropy = %v but Entropy() = %v", s.Char, p.pilot.Pw.Entropy, float32(e.F))
		return
	}
	_, q := ll.law.max()
	acc := new(big.Rat).Sub(big.NewRat(1, 1), ll.rejected)
	pmax := new(big.Rat).Quo(q, acc)
	uniform := true
	for _, x := range ll.law {
		if x.Cmp(q) != 0 {
			uniform = false
		}
	}
	c.Distinct("char", s.Char.String())
	c.Count("char_configs_compared", 1)
	if ll.rejected.Sign() > 0 {
		c.Probe("char_config_with_rejection_mass", 1)
	}
	if !checkEntropyBound(c, s.Char.String(), pmax, float32(e.F), uniform) {
		return
	}
	c.Sample(map[string]interface{}{"recipe": s.Char.String(), "entropy": float32(e.F), "max_probability": pmax.RatString()})
	_ = spg.MaxTrials
}

// runC06Large: configurations far too large to sweep. The generator's law is tied to the model
// on small configurations (C02/C04); here the reported entropy is compared with the model's
// min-entropy: log2 of the exact count of satisfying strings (character recipes) or the
// product-form value (wordlist recipes).
func runC06Large(c *Ctx, s *C06Spec) {
	if s.Char != nil {
		cfg := *s.Char
		rec := cfg.Recipe()
		m := modelChar(cfg)
		if len(m.A) == 0 || len(m.Req) > 14 {
			return
		}
		cnt := m.Count()
		if cnt.Sign() <= 0 {
			return
		}
		e := entropyOp(NewTape(TapeSpec{Mode: "raw"}), &rec)
		c.Eval(1)
		c.T(e.tkey())
		c.Distinct("large-char", cfg.String())
		c.Count("large_char_configs_compared_with_model_count", 1)
		if e.Kind != "ok" {
			c.Count("entropy_panicked", 1)
			return
		}
		if len(m.A) >= 200 {
			c.Probe("alphabet_of_200_or_more_characters", 1)
		}
		if cfg.Length >= 128 {
			c.Probe("length_128_or_more", 1)
		}
		// uniform over the satisfying strings (C02): the most likely password has probability 1/count
		pmax := new(big.Rat).SetFrac(big.NewInt(1), cnt)
		if !checkEntropyBound(c, cfg.String()+" (too large to sweep: exact count of satisfying strings from the model)", pmax, float32(e.F), true) {
			return
		}
		g := genOp(NewTape(TapeSpec{Mode: "choice", Seed: s.Seed, Default: "random"}), &rec)
		if g.Kind == "ok" && g.Pw.Entropy != float32(e.F) && !(math.IsNaN(e.F) && g.Pw.Entropy != g.Pw.Entropy) {
			c.Violate("password-entropy-field", "", "%s: Password.Entropy = %v but Entropy() = %v", cfg, g.Pw.Entropy, float32(e.F))
		}
		return
	}
	cfg := *s.WL
	var kept []string
	var allCap bool
	var rec *spg.WLRecipe
	if s.Shipped != "" {
		wl := shippedBuilt[s.Shipped+s.Orders.Words]
		if wl == nil {
			var err error
			if wl, err = spg.NewWordList(shippedLists[s.Shipped]); err != nil {
				return
			}
			shippedBuilt[s.Shipped+s.Orders.Words] = wl
		}
		b := cfg.build()
		r := b.Recipe
		rr := spg.NewWLRecipe(cfg.Length, wl)
		rr.Capitalize, rr.SeparatorChar, rr.SeparatorFunc = r.Capitalize, r.SeparatorChar, r.SeparatorFunc
		rec = rr
		ml := modelList(shippedLists[s.Shipped])
		kept, allCap = ml.Kept, ml.AllCap
	} else {
		b := cfg.build()
		if b.List == nil {
			return
		}
		rec = &b.Recipe
		ml := modelList(cfg.Words)
		if !ml.premiseOK() {
			return
		}
		kept, allCap = ml.Kept, ml.AllCap
	}
	sl := cfg.Sep.law()
	if sl == nil {
		return
	}
	want := wlEntropyFormula(len(kept), allCap, cfg.Length, cfg.Cap, sl.Entropy)
	e := entropyOp(NewTape(TapeSpec{Mode: "choice", Seed: s.Seed, Default: "random"}), rec)
	c.Eval(1)
	c.T(e.tkey())
	c.Distinct("large-wl", cfg.String(), s.Shipped)
	c.Count("large_wl_configs_compared_with_product_form", 1)
	if e.Kind != "ok" {
		return
	}
	H := e.F
	if math.IsNaN(H) {
		c.Violate("entropy-nan", "", "%s (%s): Entropy() is NaN", cfg, s.Shipped)
		return
	}
	tol := entTol(want)
	if H > want+tol {
		c.Violate("entropy-overstated", "", "%s (list %s, %d kept words): Entropy() = %v bits but the most likely password has probability 2^-%.4f (product form of the recipe)", cfg, s.Shipped, len(kept), float32(H), want)
		return
	}
	if H < want-tol {
		c.Violate("entropy-not-tight", "", "%s (list %s, %d kept words): Entropy() = %v bits, the min-entropy is %.4f", cfg, s.Shipped, len(kept), float32(H), want)
	}
}
