package main

import (
	"math/big"
)

// ---------------------------------------------------------------------------
// Choice-tree sweeps (N1). A generation is a path in a tree whose nodes are
// bounded draws (made visible by hook H1). A sweep enumerates, depth first,
// every path of one configuration up to a depth limit; each leaf has the
// exact probability prod 1/n_i given that each bounded draw is uniform (C01).
// ---------------------------------------------------------------------------

type Leaf struct {
	Path     []uint32 // the enumerated choices (after the fixed prefix)
	Bounds   []uint32 // bounds of the enumerated draws
	Draws    int      // total draws the operation made (prefix + enumerated + continuation)
	Terminal bool     // the operation ended within the enumerated depth
	P        *big.Rat
	Res      OpResult
}

type sweepCfg struct {
	Prefix    []uint32 // choices fixed before the enumerated part (conditioned on)
	Depth     int      // number of draws enumerated after the prefix (<=0: unlimited)
	Cont      []uint32 // choices served after the enumerated part (then zeros)
	MaxLeaves int
}

// sweep runs op once per path. visit returns false to stop early.
// complete reports whether the whole tree (to the depth limit) was enumerated.
func sweep(cfg sweepCfg, op func(t *Tape) OpResult, visit func(l *Leaf) bool) (leaves int, complete bool) {
	var e []uint32 // enumerated part
	one := big.NewInt(1)
	for {
		choices := append(append(append([]uint32{}, cfg.Prefix...), e...), cfg.Cont...)
		if cfg.Depth > 0 && len(e) < cfg.Depth {
			// pad the enumerated part with zeros so that the continuation starts at the right depth
			pad := make([]uint32, cfg.Depth-len(e))
			choices = append(append(append(append([]uint32{}, cfg.Prefix...), e...), pad...), cfg.Cont...)
		}
		t := NewTape(TapeSpec{Mode: "choice", Choices: choices, Default: "zero"})
		res := op(t)
		if t.Unbound > 0 {
			// the operation read the random source without announcing a bounded draw (hook H1):
			// the enumerated tree is then not the whole choice tree and no law can be computed
			panic(sentCannotDrive)
		}
		nd := len(t.Draws)
		// bounds of the enumerated section actually reached
		from := len(cfg.Prefix)
		to := nd
		if cfg.Depth > 0 && to > from+cfg.Depth {
			to = from + cfg.Depth
		}
		if to < from {
			to = from
		}
		l := &Leaf{Draws: nd, Res: res}
		den := big.NewInt(1)
		for i := from; i < to; i++ {
			b := t.Draws[i].N
			l.Bounds = append(l.Bounds, b)
			idx := uint32(0)
			if i-from < len(e) {
				idx = e[i-from] % maxu32(b, 1)
			}
			l.Path = append(l.Path, idx)
			den.Mul(den, big.NewInt(int64(b)))
		}
		l.P = new(big.Rat).SetFrac(one, den)
		l.Terminal = cfg.Depth <= 0 || nd <= from+cfg.Depth
		leaves++
		if !visit(l) {
			return leaves, false
		}
		if cfg.MaxLeaves > 0 && leaves >= cfg.MaxLeaves {
			// is there anything left?
			e = nextPath(l.Path, l.Bounds)
			return leaves, e == nil
		}
		e = nextPath(l.Path, l.Bounds)
		if e == nil {
			return leaves, true
		}
	}
}

func maxu32(a, b uint32) uint32 {
	if a > b {
		return a
	}
	return b
}

// nextPath increments the odometer: last position that can still advance.
func nextPath(path, bounds []uint32) []uint32 {
	for j := len(path) - 1; j >= 0; j-- {
		if path[j]+1 < bounds[j] {
			n := append([]uint32{}, path[:j+1]...)
			n[j]++
			return n
		}
	}
	return nil
}

// treeSizeWithin does a cheap pilot to refuse sweeps that would be too large:
// it follows the all-zero path and multiplies the bounds it meets.
func pilotBounds(cfg sweepCfg, op func(t *Tape) OpResult) (bounds []uint32, draws int, res OpResult) {
	choices := append(append([]uint32{}, cfg.Prefix...), make([]uint32, maxInt(cfg.Depth, 0))...)
	choices = append(choices, cfg.Cont...)
	t := NewTape(TapeSpec{Mode: "choice", Choices: choices, Default: "zero"})
	res = op(t)
	from := len(cfg.Prefix)
	for i := from; i < len(t.Draws); i++ {
		if cfg.Depth > 0 && i >= from+cfg.Depth {
			break
		}
		bounds = append(bounds, t.Draws[i].N)
	}
	return bounds, len(t.Draws), res
}

func maxInt(a, b int) int {
	if a > b {
		return a
	}
	return b
}

// lawOf accumulates the pushed-forward law of terminal leaves.
type Law map[string]*big.Rat

func (l Law) add(k string, p *big.Rat) {
	if old, ok := l[k]; ok {
		old.Add(old, p)
	} else {
		l[k] = new(big.Rat).Set(p)
	}
}

func (l Law) total() *big.Rat {
	s := new(big.Rat)
	for _, p := range l {
		s.Add(s, p)
	}
	return s
}

func (l Law) max() (string, *big.Rat) {
	var bk string
	var bp *big.Rat
	for k, p := range l {
		if bp == nil || p.Cmp(bp) > 0 || (p.Cmp(bp) == 0 && k < bk) {
			bk, bp = k, p
		}
	}
	return bk, bp
}
