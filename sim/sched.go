package main

import "fmt"

// ---------------------------------------------------------------------------
// Controlled interleaving (N3). Each simulated client is a real goroutine
// performing real API calls; hook H5 parks the calling goroutine and hands
// control to the scheduler, which releases exactly one runnable client at a
// time, chosen from the seeded "sched" stream (or from an explicit script).
// ---------------------------------------------------------------------------

type SchedSpec struct {
	Policy string `json:"policy"` // random | sequential | roundrobin | site:<name> | pct
	Seed   uint64 `json:"seed"`
	Script []int  `json:"script,omitempty"` // explicit release sequence (replay / shrinking)
	PCTd   int    `json:"pct_d,omitempty"`
}

type schedEvent struct {
	id   int
	done bool
	site string
}

type schedClient struct {
	id     int
	tape   *Tape
	resume chan struct{}
	done   bool
	site   string
	prio   int
}

type Sched struct {
	spec     SchedSpec
	rng      *Rng
	clients  []*schedClient
	cur      int
	events   chan schedEvent
	Trace    []int
	Sites    map[string]int
	Yields   int
	Switches int
	changeAt map[int]bool
}

func (s *Sched) currentTape() *Tape {
	if s.cur < 0 || s.cur >= len(s.clients) {
		return nil
	}
	return s.clients[s.cur].tape
}

// yield is called on the running client's goroutine.
func (s *Sched) yield(site string) {
	id := s.cur
	if id < 0 {
		return
	}
	c := s.clients[id]
	s.events <- schedEvent{id: id, site: site}
	<-c.resume
}

// runClients executes one op per client under the schedule and returns when all are done.
func runClients(spec SchedSpec, tapes []*Tape, ops []func()) *Sched {
	s := &Sched{spec: spec, rng: Sub(spec.Seed, "sched"), cur: -1, events: make(chan schedEvent), Sites: map[string]int{}, changeAt: map[int]bool{}}
	for i := range ops {
		s.clients = append(s.clients, &schedClient{id: i, tape: tapes[i], resume: make(chan struct{}), prio: 0})
	}
	if spec.Policy == "pct" {
		p := s.rng.Perm(len(ops))
		for i, c := range s.clients {
			c.prio = p[i] + spec.PCTd + 1
		}
		for k := 0; k < spec.PCTd; k++ {
			s.changeAt[1+s.rng.Intn(60)] = true
		}
	}
	prev := simr.sched
	simr.sched = s
	defer func() { simr.sched = prev }()
	for i := range ops {
		go func(i int) {
			c := s.clients[i]
			<-c.resume
			defer func() {
				// panics inside ops are handled by the op wrapper itself; anything
				// arriving here is a harness sentinel: report as done with site=panic
				if r := recover(); r != nil {
					s.events <- schedEvent{id: i, done: true, site: fmt.Sprint("panic:", r)}
					return
				}
				s.events <- schedEvent{id: i, done: true}
			}()
			ops[i]()
		}(i)
	}
	remaining := len(ops)
	last := -1
	step := 0
	for remaining > 0 {
		var runnable []int
		for _, c := range s.clients {
			if !c.done {
				runnable = append(runnable, c.id)
			}
		}
		next := -1
		if step < len(spec.Script) {
			want := spec.Script[step]
			for _, id := range runnable {
				if id == want {
					next = id
				}
			}
		}
		if next < 0 {
			next = s.pick(runnable, last, step)
		}
		step++
		if last >= 0 && next != last {
			s.Switches++
		}
		last = next
		s.Trace = append(s.Trace, next)
		s.cur = next
		s.clients[next].resume <- struct{}{}
		ev := <-s.events
		s.cur = -1
		if ev.done {
			s.clients[ev.id].done = true
			s.clients[ev.id].site = ev.site
			remaining--
		} else {
			s.Yields++
			s.Sites[ev.site]++
			s.clients[ev.id].site = ev.site
			if s.changeAt[s.Yields] {
				s.clients[ev.id].prio = -s.Yields // drop below everyone
			}
		}
	}
	return s
}

func (s *Sched) pick(runnable []int, last, step int) int {
	contains := func(id int) bool {
		for _, r := range runnable {
			if r == id {
				return true
			}
		}
		return false
	}
	switch {
	case s.spec.Policy == "sequential":
		if last >= 0 && contains(last) {
			return last
		}
		return runnable[0]
	case s.spec.Policy == "roundrobin":
		for k := 1; k <= len(s.clients); k++ {
			id := (last + k + len(s.clients)) % len(s.clients)
			if contains(id) {
				return id
			}
		}
	case len(s.spec.Policy) > 5 && s.spec.Policy[:5] == "site:":
		site := s.spec.Policy[5:]
		if last >= 0 && contains(last) && s.clients[last].site != site {
			return last
		}
		// preempt: pick another client if there is one
		var others []int
		for _, r := range runnable {
			if r != last {
				others = append(others, r)
			}
		}
		if len(others) > 0 {
			return others[s.rng.Intn(len(others))]
		}
	case s.spec.Policy == "pct":
		best := runnable[0]
		for _, r := range runnable {
			if s.clients[r].prio > s.clients[best].prio {
				best = r
			}
		}
		return best
	}
	return runnable[s.rng.Intn(len(runnable))]
}
