package main

import (
	"fmt"
	"regexp"
	"strings"

	"go.1password.io/spg"
)

// ---------------------------------------------------------------------------
// C18: secrets leave the library only through the returned Password.
// Output monitor (fd 1, fd 2, process log, plus returned error and panic
// texts) around every operation of tainted configurations: alphabets, words
// and separators built only from runes that occur in none of the library's
// diagnostics, so that any occurrence of any secret rune is a leak.
// ---------------------------------------------------------------------------

type C18Spec struct {
	Char   *CharCfg   `json:"char,omitempty"`
	WL     *WLCfg     `json:"wl,omitempty"`
	ASCII  bool       `json:"ascii,omitempty"` // untainted configuration: weaker window rule
	Knobs  [2]float64 `json:"knobs"`           // MaxTrials, MaxFailRate
	Orders OrderSpec  `json:"orders"`
	Seed   uint64     `json:"seed"`
}

var diagTemplates = []*regexp.Regexp{
	regexp.MustCompile(`^-?\d+ duplicate words found when setting up word list generator$`),
	regexp.MustCompile(`^entropySimple: There must be a positive number of elements\. Not -?\d+$`),
	regexp.MustCompile(`^successProbability: eDiff is positive\. Setting to 0$`),
	regexp.MustCompile(`^successProbability: p greater than 1\. Setting to 1$`),
}

func init() {
	register(&CheckDef{
		ID: "C18", Level: "exploration",
		Technique:   "deterministic simulation with an output monitor: fd 1, fd 2, the process log and returned error/panic texts are captured around every operation of tainted configurations (successful, retried, refused, exhausted and read-faulted generations; rejected candidates known exactly from the choice tape) and searched for any secret rune",
		Rule:        "case = one monitored operation (Generate, Entropy, SuccessProbability, Alphabet, NewWordList) with its captured output; distinct by hash of (configuration, operation, stream kind); non-trivial = the operation drew at least one random choice or was refused / faulted",
		Assumptions: []string{"tainted rule: alphabets, words and separators consist only of runes that occur in no library diagnostic, so any such rune in the output is a leak (no length threshold)", "ASCII configurations use the weaker rule: no window of 8 characters of a password or rejected candidate and no synthetic word of 5 or more letters in the output", "returned error strings and panic texts are monitored too (the statement: the returned Password is the only place the secret appears)"},
		Episodes:    map[string]int{"quick": 16000, "thorough": 8000000},
		TwiceEvery:  7,
		Real:        []string{"all output statements of the library (fmt.Printf, log.Println)", "CharRecipe/WLRecipe Generate, Entropy, SuccessProbability, Alphabet", "NewWordList"},
		Simulated:   []string{"fd 1, fd 2 and the log writer (captured)", "crypto/rand.Reader (choice tapes incl. all-fail streams; read faults)", "retry knobs"},
		Gen: func(seed uint64, tier string) interface{} {
			r := Sub(seed, "config")
			s := &C18Spec{Orders: genOrders(r, seed), Seed: seed, Knobs: [2]float64{200, 1e-9}}
			if r.Chance(0.4) {
				s.Knobs = [2]float64{float64(pick(r, []int{1, 2, 5, 200})), pick(r, []float64{1e-9, 0.5, 0.999})}
			}
			taint := r.Chance(0.75)
			s.ASCII = !taint
			if r.Chance(0.5) {
				cc := genCharCfg(r, charOpt{small: r.Chance(0.7), budget: 3000, maxLen: 12, maxReq: 3, taint: taint})
				if r.Chance(0.08) {
					cc.Length = 0
				}
				if r.Chance(0.08) {
					cc.ExcludeChars += cc.AllowChars + strings.Join(cc.RequireSets, "")
					cc.Exclude |= cc.Allow | cc.Require
				}
				s.Char = &cc
			} else {
				w := genWLCfg(r, wlOpt{list: listOpt{min: 1, max: 8, twins: 0.2, precap: 0.1, dups: 0.3}, maxLen: 5, taint: taint})
				if w.Sep.Kind == "altempty" || (taint && w.Sep.Kind == "preset") {
					w.Sep = SepCfg{Kind: "char", Char: pick(r, taintPool)}
				}
				if r.Chance(0.08) {
					// a word of more than 255 characters: the index cannot be made
					long := strings.Repeat(pick(r, taintPool), 260+r.Intn(50))
					if !taint {
						long = strings.Repeat("x", 300)
					}
					w.Words = append(w.Words, long)
					if r.Bool() {
						w.Words = []string{long}
					}
				}
				if r.Chance(0.1) {
					// a caller-written separator function reporting a nonsensical entropy
					w.Sep = SepCfg{Kind: "weird", Char: pick(r, taintPool), Preset: pick(r, []string{"nan", "neg", "inf"})}
				}
				s.WL = &w
			}
			return s
		},
		Decode: decodeInto[C18Spec],
		Run:    runC18,
		Shrink: func(si interface{}) []interface{} {
			s := si.(*C18Spec)
			var out []interface{}
			if s.Char != nil {
				for _, cc := range shrinkCharCfg(*s.Char) {
					n := *s
					c2 := cc
					n.Char = &c2
					out = append(out, &n)
				}
			}
			if s.WL != nil {
				for _, w := range shrinkWLCfg(*s.WL) {
					n := *s
					w2 := w
					n.WL = &w2
					out = append(out, &n)
				}
			}
			return out
		},
	})
}

type leakCtx struct {
	c       *Ctx
	taint   strset   // secret runes (tainted mode)
	windows []string // ASCII mode: 8-char windows of secrets and long synthetic words
	desc    string
}

func (l *leakCtx) addSecret(s string) {
	if l.taint != nil {
		for _, r := range runes(s) {
			if r >= "\x80" {
				l.taint[r] = true
			}
		}
		return
	}
	rs := runes(s)
	for i := 0; i+8 <= len(rs); i++ {
		l.windows = append(l.windows, strings.Join(rs[i:i+8], ""))
	}
}

func (l *leakCtx) addWord(w string) {
	if l.taint != nil {
		l.addSecret(w)
		return
	}
	if len(runes(w)) >= 5 {
		l.windows = append(l.windows, w)
	}
}

// scan checks one captured text; what describes the operation.
func (l *leakCtx) scan(text, where, what string) bool {
	if text == "" {
		return true
	}
	if l.taint != nil {
		for _, r := range runes(text) {
			if l.taint[r] {
				l.c.Violate("leak", "leak-"+where, "%s: %s of %s contains the secret character %q: %q", l.desc, where, what, r, clip(text))
				return false
			}
		}
	} else {
		for _, w := range l.windows {
			if strings.Contains(text, w) {
				l.c.Violate("leak", "leak-"+where, "%s: %s of %s contains the secret fragment %q: %q", l.desc, where, what, w, clip(text))
				return false
			}
		}
	}
	return true
}

func clip(s string) string {
	if len(s) > 300 {
		return s[:300] + "..."
	}
	return s
}

func (l *leakCtx) checkOp(res OpResult, what string) bool {
	c := l.c
	c.Eval(1)
	c.T(res.tkey())
	// secrets of this operation: the returned password and every candidate drawn
	if res.Pw != nil {
		l.addSecret(res.Pw.S)
	}
	if res.Tape != nil && len(res.Tape.CharLists) > 0 {
		// reconstruct every character drawn (candidates, including rejected and partial ones)
		chars := res.Tape.CharLists[0]
		var cand strings.Builder
		for _, d := range res.Tape.Draws {
			if d.Index >= 0 && int(d.N) == len(chars) {
				cand.WriteString(chars[d.Index])
			}
		}
		l.addSecret(cand.String())
	}
	if !l.scan(res.Out.Stdout, "stdout", what) || !l.scan(res.Out.Stderr, "stderr", what) || !l.scan(res.Out.Log, "log", what) {
		return false
	}
	// what a client does next with a password: ask for its index kind, store the index, read it back
	if res.P != nil {
		m := mark()
		errText := ""
		func() {
			defer func() {
				if r := recover(); r != nil {
					errText = fmt.Sprint(r)
				}
			}()
			_ = res.P.Tokens().Kind()
			ix, err := res.P.Tokens().MakeIndices()
			if err != nil {
				errText = err.Error()
			} else {
				if _, err := spg.Tokenize(res.P.String(), ix, res.P.Entropy); err != nil {
					errText = err.Error()
				}
				// the stored string picked up a trailing newline; the index belongs to a shorter password
				if _, err := spg.Tokenize(res.P.String()+"\n", ix, res.P.Entropy); err != nil {
					errText += " " + err.Error()
				}
				// an index written by a newer version / damaged in storage: unknown kind byte
				bad := append([]byte{9}, ix[1:]...)
				if _, err := spg.Tokenize(res.P.String(), bad, res.P.Entropy); err != nil {
					errText += " " + err.Error()
				}
				if len(ix) > 2 {
					if _, err := spg.Tokenize(res.P.String(), ix[:len(ix)-1], res.P.Entropy); err != nil {
						errText += " " + err.Error()
					}
				}
			}
		}()
		out := since(m)
		c.T(errText)
		c.Count("index_operations_monitored", 1)
		if !l.scan(out.Stdout, "stdout", "Kind/MakeIndices/Tokenize") || !l.scan(out.Stderr, "stderr", "Kind/MakeIndices/Tokenize") || !l.scan(out.Log, "log", "Kind/MakeIndices/Tokenize") || !l.scan(errText, "error-text", "Kind/MakeIndices/Tokenize") {
			return false
		}
	}
	if !l.scan(res.Err, "error-text", what) || !l.scan(res.Panic, "panic-text", what) {
		return false
	}
	// diagnostics must be the known count/probability templates
	for _, line := range strings.Split(res.Out.Stdout+res.Out.Stderr+res.Out.Log, "\n") {
		line = strings.TrimSpace(line)
		if line == "" {
			continue
		}
		known := false
		for _, t := range diagTemplates {
			if t.MatchString(line) {
				known = true
			}
		}
		if known {
			c.Count("known_diagnostic_lines", 1)
		} else {
			c.Count("other_output_lines", 1)
		}
	}
	return true
}

func runC18(c *Ctx, si interface{}) {
	s := si.(*C18Spec)
	curOrders = s.Orders
	withKnobs(int(s.Knobs[0]), s.Knobs[1], func() {
		l := &leakCtx{c: c}
		if !s.ASCII {
			l.taint = strset{}
		}
		tape := func(k int, def string) *Tape {
			return NewTape(TapeSpec{Mode: "choice", Seed: mix(s.Seed, "op", k), Default: def})
		}
		if s.Char != nil {
			cfg := *s.Char
			l.desc = "CharRecipe" + cfg.String()
			rec := cfg.Recipe()
			m := modelChar(cfg)
			// the alphabet itself is what passwords are made of
			for _, ch := range m.A {
				l.addSecret(ch)
			}
			c.Distinct(l.desc, s.Knobs[0])
			for k := 0; k < 3; k++ {
				res := genOp(tape(k, "random"), &rec)
				c.Count("generate_"+res.Kind, 1)
				if len(res.Tape.Draws) > cfg.Length {
					c.Probe("generation_with_rejected_candidates", 1)
				}
				if !l.checkOp(res, "Generate") {
					return
				}
			}
			// all-fail stream: always the first character
			res := genOp(tape(10, "zero"), &rec)
			if res.Kind == "error" && len(res.Tape.Draws) > 0 {
				c.Probe("exhausted_all_attempts", 1)
			}
			if !l.checkOp(res, "Generate on an all-first-character stream") {
				return
			}
			// read fault in the middle of a generation
			ft := NewTape(TapeSpec{Mode: "choice", Seed: mix(s.Seed, "fault"), Default: "random", Faults: []Fault{{Read: maxInt(cfg.Length/2, 0), Kind: "ERR2"}}})
			res = genOp(ft, &rec)
			for k, v := range ft.Fired {
				c.Fault(k, int64(v))
			}
			if !l.checkOp(res, "Generate with a failing random source") {
				return
			}
			if !l.checkOp(entropyOp(tape(20, "random"), &rec), "Entropy") {
				return
			}
			if !l.checkOp(under(tape(21, "random"), func(r *OpResult) { r.F = float64(rec.SuccessProbability()) }), "SuccessProbability") {
				return
			}
			c.Sample(map[string]interface{}{"recipe": l.desc, "tainted": !s.ASCII})
			return
		}
		cfg := *s.WL
		l.desc = "WLRecipe" + cfg.String()
		for _, w := range cfg.Words {
			l.addWord(w)
			l.addWord(strings.Title(w))
		}
		if cfg.Sep.Kind == "char" || cfg.Sep.Kind == "weird" {
			l.addWord(cfg.Sep.Char)
		}
		if cfg.Sep.Kind == "recipe" {
			for _, ch := range modelChar(*cfg.Sep.Recipe).A {
				l.addSecret(ch)
			}
		}
		for _, v := range cfg.Sep.Vals {
			l.addWord(v)
		}
		c.Distinct(l.desc)
		// construction (duplicate-word notice)
		var b builtWL
		cons := under(tape(0, "random"), func(r *OpResult) { b = cfg.build() })
		cons.Out = b.Out
		if b.Out.Stdout != "" || b.Out.Stderr != "" {
			c.Probe("duplicate_word_notice_emitted", 1)
		}
		if !l.checkOp(cons, "NewWordList") {
			return
		}
		if b.List == nil {
			return
		}
		for k := 0; k < 3; k++ {
			res := genOp(tape(k+1, "random"), &b.Recipe)
			c.Count("generate_"+res.Kind, 1)
			if !l.checkOp(res, "Generate") {
				return
			}
		}
		ft := NewTape(TapeSpec{Mode: "choice", Seed: mix(s.Seed, "fault"), Default: "random", Faults: []Fault{{Read: cfg.Length, Kind: "ERR1"}}})
		res := genOp(ft, &b.Recipe)
		for k, v := range ft.Fired {
			c.Fault(k, int64(v))
		}
		if !l.checkOp(res, "Generate with a failing random source") {
			return
		}
		if !l.checkOp(entropyOp(tape(20, "random"), &b.Recipe), "Entropy") {
			return
		}
		c.Sample(map[string]interface{}{"recipe": l.desc, "tainted": !s.ASCII})
	})
	_ = fmt.Sprint
	_ = spg.MaxTrials
}
