package main

import (
	"fmt"
	"strings"

	"go.1password.io/spg"
)

// ---------------------------------------------------------------------------
// C05: wordlist password structure. Structure predicate evaluated on every
// simulated WLRecipe.Generate: boundary-biased walks (shipped and synthetic
// lists) and small sweeps.
// ---------------------------------------------------------------------------

type C05Spec struct {
	WL      WLCfg     `json:"wl"`
	Shipped string    `json:"shipped,omitempty"` // "", words, syllables: use the shipped list instead of WL.Words
	Orders  OrderSpec `json:"orders"`
	Tape    TapeSpec  `json:"tape"`
	N       int       `json:"n"`
}

type wlStructCtx struct {
	kept     strset
	titled   strset // Title(w) for w in kept
	hasEmpty bool
	L        int
	scheme   string
}

func newWLStructCtx(kept []string, L int, scheme string) *wlStructCtx {
	x := &wlStructCtx{kept: strset{}, titled: strset{}, L: L, scheme: scheme}
	for _, w := range kept {
		x.kept[w] = true
		x.titled[strings.Title(w)] = true
		if w == "" {
			x.hasEmpty = true
		}
	}
	return x
}

// checkWLStructure returns "" if the password has the structure the recipe
// prescribes, else (class key, explanation). sepVals are the values the
// separator function returned during the call (nil: constant sepChar).
func (x *wlStructCtx) check(pw *PwView, p *spg.Password, constSepChar string, sepVals []string, useFunc bool) (key, why string) {
	ts := pw.Tokens
	if joinToks(ts) != pw.S {
		return "string-not-concat", fmt.Sprintf("String() %q is not the concatenation of the token values %v", pw.S, ts)
	}
	var atoms, seps []string
	for _, t := range ts {
		switch t.T {
		case 1:
			atoms = append(atoms, t.V)
		case 0:
			seps = append(seps, t.V)
		default:
			return "token-type", fmt.Sprintf("token %q has type %d", t.V, t.T)
		}
	}
	if p != nil {
		ga, gs := p.Tokens().Atoms(), p.Tokens().Separators()
		if strings.Join(ga, "\x00") != strings.Join(atoms, "\x00") || len(ga) != len(atoms) {
			return "atoms-projection", fmt.Sprintf("Atoms() = %q, atom-typed tokens in order are %q", ga, atoms)
		}
		if strings.Join(gs, "\x00") != strings.Join(seps, "\x00") || len(gs) != len(seps) {
			return "separators-projection", fmt.Sprintf("Separators() = %q, separator-typed tokens in order are %q", gs, seps)
		}
	}
	// every atom is a kept word or a title-cased kept word; every separator value is one the separator yields
	for _, a := range atoms {
		if !x.kept[a] && !x.titled[a] {
			return "foreign-atom", fmt.Sprintf("atom %q is neither a word of the list nor a title-cased word", a)
		}
	}
	emptySepPossible := false
	if useFunc {
		avail := map[string]int{}
		for _, v := range sepVals {
			avail[v]++
			if v == "" {
				emptySepPossible = true
			}
		}
		for _, s := range seps {
			if s == "" {
				return "empty-separator-token", "a separator token with an empty value"
			}
			if avail[s] == 0 {
				return "foreign-separator", fmt.Sprintf("separator token %q was not returned by the separator function (returned %q)", s, sepVals)
			}
			avail[s]--
		}
	} else {
		for _, s := range seps {
			if s != constSepChar || s == "" {
				return "foreign-separator", fmt.Sprintf("separator token %q, SeparatorChar is %q", s, constSepChar)
			}
		}
		emptySepPossible = constSepChar == ""
	}
	// shape
	structural := func() string {
		if len(ts) > 0 && ts[0].T == 0 {
			return "leading separator"
		}
		if len(ts) > 0 && ts[len(ts)-1].T == 0 {
			return "trailing separator"
		}
		for i := 1; i < len(ts); i++ {
			if ts[i].T == 0 && ts[i-1].T == 0 {
				return "two adjacent separators"
			}
			if ts[i].T == 1 && ts[i-1].T == 1 && !emptySepPossible {
				return fmt.Sprintf("atoms %q and %q with no separator between them although the separator is non-empty", ts[i-1].V, ts[i].V)
			}
		}
		if len(atoms) != x.L {
			return fmt.Sprintf("%d atoms, want Length=%d", len(atoms), x.L)
		}
		if useFunc {
			empties := 0
			for _, v := range sepVals {
				if v == "" {
					empties++
				}
			}
			if missing := (x.L - 1) - len(seps); missing > empties {
				return fmt.Sprintf("%d gaps have no separator token but the separator function returned an empty value only %d times", missing, empties)
			}
		} else if constSepChar != "" && len(seps) != x.L-1 {
			return fmt.Sprintf("%d separator tokens, want %d", len(seps), x.L-1)
		} else if constSepChar == "" && len(seps) != 0 {
			return "separator tokens although the separator is empty"
		}
		return ""
	}()
	if structural != "" {
		if x.hasEmpty && len(atoms) < x.L {
			// candidate for the known finding: atoms missing exactly because the empty word was drawn.
			// The specific key is only used when nothing else is wrong: separators count fits L-1 gaps.
			ok := len(seps) <= x.L-1
			if !useFunc && constSepChar != "" && len(seps) != x.L-1 {
				ok = false
			}
			if ok {
				return "empty-word-atom-dropped", fmt.Sprintf("list contains the empty word; password %v has %d atoms for Length=%d (%s)", ts, len(atoms), x.L, structural)
			}
		}
		return "shape", structural + fmt.Sprintf(" in %v", ts)
	}
	// capitalisation scheme: existence of a permitted position set
	plain := func(a string) bool { return x.kept[a] }
	capd := func(a string) bool { return x.titled[a] }
	switch x.scheme {
	case "none":
		for i, a := range atoms {
			if !plain(a) {
				return "capitalisation", fmt.Sprintf("scheme none: atom %d %q is not a list word", i, a)
			}
		}
	case "first":
		for i, a := range atoms {
			if i == 0 && !capd(a) {
				return "capitalisation", fmt.Sprintf("scheme first: atom 0 %q is not title-cased", a)
			}
			if i > 0 && !plain(a) {
				return "capitalisation", fmt.Sprintf("scheme first: atom %d %q is not a plain list word", i, a)
			}
		}
	case "all":
		for i, a := range atoms {
			if !capd(a) {
				return "capitalisation", fmt.Sprintf("scheme all: atom %d %q is not title-cased", i, a)
			}
		}
	case "one":
		found := false
		for i := range atoms {
			if !capd(atoms[i]) {
				continue
			}
			ok := true
			for j := range atoms {
				if j != i && !plain(atoms[j]) {
					ok = false
				}
			}
			if ok {
				found = true
				break
			}
		}
		if !found {
			return "capitalisation", fmt.Sprintf("scheme one: atoms %q are not 'exactly one title-cased, the others plain'", atoms)
		}
	}
	return "", ""
}

func init() {
	register(&CheckDef{
		ID: "C05", Level: "exploration",
		Technique:   "deterministic simulation: structure predicate as an invariant on every simulated wordlist generation; boundary-biased choice walks (shipped and synthetic lists, forced first/last indices, Length 1, empty and functional separators)",
		Rule:        "case = one WLRecipe.Generate call checked against the structure predicate; distinct by hash of (recipe, returned token sequence); non-trivial = Length >= 2 or a capitalising scheme",
		Assumptions: []string{"title-casing is strings.Title", "a separator function's values for the gaps are the values it returned during the call (recorded by a wrapper), in any order"},
		Episodes:    map[string]int{"quick": 12000, "thorough": 2000000},
		TwiceEvery:  9,
		Real:        []string{"WLRecipe.Generate/Entropy", "NewWordList", "Password.String/Tokens", "Tokens.Atoms/Separators", "separator presets / NewSFFunction"},
		Simulated:   []string{"crypto/rand.Reader (choice tape, boundary-biased)", "word/alphabet index order (H2/H3)", "NewWordList visit order (H4)"},
		GenI: func(seed uint64, tier string, i int) interface{} {
			r := Sub(seed, "config")
			s := &C05Spec{Orders: genOrders(r, seed), Tape: TapeSpec{Mode: "choice", Seed: mix(seed, "tape"), Default: "bias"}, N: 6}
			if i == 0 {
				// fixed first episode: the input of the recorded known finding (KNOWN_FINDINGS.txt), so that
				// every run states whether it is still present
				s.WL = WLCfg{Words: []string{"ka", ""}, Length: 1, Cap: "none", Sep: SepCfg{Kind: "char", Char: "-"}}
				s.Tape.Default = "last"
				s.Orders = OrderSpec{Chars: "sorted", Words: "reverse", Visit: "sorted"}
				return s
			}
			s.WL = genWLCfg(r, wlOpt{list: listOpt{min: 1, max: 10, twins: 0.2, precap: 0.15, caseless: 0.15, dups: 0.15, emptyWord: 0.06, raw: 0.06}, maxLen: 5, allowFancy: true, taint: r.Chance(0.2)})
			if r.Chance(0.15) {
				s.WL.Cap = pick(r, []string{"", "ALL", "weird", "First"})
			}
			if r.Chance(0.2) {
				s.WL.Length = 1
			}
			if r.Chance(0.1) {
				// long passphrases: positions beyond 64 words
				s.WL.Length = pick(r, []int{63, 64, 65, 66, 70, 100, 129})
				s.WL.Cap = pick(r, []string{"all", "one", "one", "random", "first"})
				s.N = 4
			}
			if r.Chance(0.12) {
				s.Shipped = pick(r, []string{"words", "syllables"})
				s.WL.Words = nil
				s.Orders.Visit = "native"
				s.Orders.Words = pick(r, []string{"sorted", "reverse"})
				s.N = 3
			}
			return s
		},
		Decode: decodeInto[C05Spec],
		Run:    runC05,
		Shrink: func(si interface{}) []interface{} {
			s := si.(*C05Spec)
			var out []interface{}
			if s.N > 1 {
				n := *s
				n.N = 1
				out = append(out, &n)
			}
			for _, w := range shrinkWLCfg(s.WL) {
				n := *s
				n.WL = w
				out = append(out, &n)
			}
			return out
		},
	})
}

func shrinkWLCfg(w WLCfg) []WLCfg {
	var out []WLCfg
	if w.Length > 1 {
		n := w
		n.Length--
		out = append(out, n)
	}
	if len(w.Words) > 1 {
		for i := range w.Words {
			n := w
			n.Words = append(append([]string{}, w.Words[:i]...), w.Words[i+1:]...)
			out = append(out, n)
		}
	}
	if w.Sep.Kind != "char" {
		n := w
		n.Sep = SepCfg{Kind: "char", Char: "-"}
		out = append(out, n)
	} else if w.Sep.Char != "" && w.Sep.Char != "-" {
		n := w
		n.Sep = SepCfg{Kind: "char", Char: "-"}
		out = append(out, n)
	}
	if w.Cap != "none" {
		n := w
		n.Cap = "none"
		out = append(out, n)
	}
	return out
}

var shippedLists = map[string][]string{"words": spg.AgileWords, "syllables": spg.AgileSyllables, "huge": hugeList()}

// hugeList: 70 000 distinct lower-case words (more than 2^16).
func hugeList() []string {
	out := make([]string, 0, 70000)
	for i := 0; i < 70000; i++ {
		out = append(out, fmt.Sprintf("w%dx", i))
	}
	return out
}

var shippedBuilt = map[string]*spg.WordList{}

func runC05(c *Ctx, si interface{}) {
	s := si.(*C05Spec)
	curOrders = s.Orders
	cfg := s.WL
	var b builtWL
	var kept []string
	if s.Shipped != "" {
		wl := shippedBuilt[s.Shipped+s.Orders.Words]
		if wl == nil {
			var err error
			wl, err = spg.NewWordList(shippedLists[s.Shipped])
			if err != nil {
				c.Violate("list-refused", "", "shipped list %s refused: %v", s.Shipped, err)
				return
			}
			shippedBuilt[s.Shipped+s.Orders.Words] = wl
		}
		cfg.Words = nil
		b = cfg.build()
		r := spg.NewWLRecipe(cfg.Length, wl)
		r.Capitalize = b.Recipe.Capitalize
		r.SeparatorChar = b.Recipe.SeparatorChar
		r.SeparatorFunc = b.Recipe.SeparatorFunc
		b.Recipe = *r
		b.List = wl
		kept = modelList(shippedLists[s.Shipped]).Kept
		c.Probe("shipped_list_walk", 1)
	} else {
		b = cfg.build()
		if b.List == nil {
			c.Count("list_refused", 1)
			return
		}
		kept = modelList(cfg.Words).Kept
	}
	x := newWLStructCtx(kept, cfg.Length, cfg.Cap)
	useFunc := b.Recipe.SeparatorFunc != nil
	var sepVals []string
	if useFunc {
		orig := b.Recipe.SeparatorFunc
		b.Recipe.SeparatorFunc = func() (string, spg.FloatE) {
			v, e := orig()
			sepVals = append(sepVals, v)
			return v, e
		}
	}
	reportedEmpty := false
	type keptPwd struct {
		p    *spg.Password
		view *PwView
	}
	var retained []keptPwd
	recheck := func(after string) bool {
		for i, k := range retained {
			now := viewPw(k.p)
			if now.key() != k.view.key() || now.S != k.view.S || now.Entropy != k.view.Entropy {
				c.Violate("returned-password-changed", "", "%s: password %d was %v when it was returned and reads %v after %s", cfg, i, k.view.Tokens, now.Tokens, after)
				return false
			}
		}
		return true
	}
	for k := 0; k < s.N; k++ {
		ts := s.Tape
		ts.Seed = mix(s.Tape.Seed, k)
		sepVals = nil
		res := genOp(NewTape(ts), b.Recipe)
		c.T(res.tkey())
		c.Eval(1)
		if res.Kind != "ok" {
			c.Count("generation_"+res.Kind, 1)
			continue
		}
		c.Count("passwords_checked", 1)
		if cfg.Length >= 2 || (cfg.Cap != "none" && cfg.Cap != "") {
			c.Distinct(cfg.String(), s.Shipped, res.Pw.key())
		}
		for _, d := range res.Tape.Draws {
			if d.N > 2 && d.Index == int64(d.N)-1 {
				c.Probe("last_index_drawn", 1)
				break
			}
		}
		for _, v := range sepVals {
			if v == "" {
				c.Probe("empty_separator_from_function", 1)
				break
			}
		}
		if cfg.Length == 1 {
			c.Probe("length_1", 1)
		}
		key, why := x.check(res.Pw, res.P, cfg.Sep.Char, sepVals, useFunc)
		if key == "empty-word-atom-dropped" {
			if !reportedEmpty {
				c.Violate("empty-word", key, "%s: %s", cfg, why)
				reportedEmpty = true
			}
			continue // keep checking the other generations of the episode
		}
		if key != "" {
			c.Violate("structure", key, "%s: %s", cfg, why)
			return
		}
		retained = append(retained, keptPwd{res.P, res.Pw})
		if !recheck("a later Generate of the same recipe") {
			return
		}
		if k == 0 {
			c.Sample(map[string]interface{}{"recipe": cfg.String(), "shipped": s.Shipped, "tokens": brief(res.Pw.Tokens)})
		}
	}
	// a different recipe over the same list must not disturb passwords handed out earlier
	if len(retained) > 0 && b.List != nil {
		other := spg.NewWLRecipe(1+int(s.Tape.Seed%3), b.List)
		other.SeparatorChar = "+"
		other.Capitalize = spg.CSAll
		genOp(NewTape(TapeSpec{Mode: "choice", Seed: mix(s.Tape.Seed, "other"), Default: "random"}), other)
		c.Probe("earlier_passwords_reinspected_after_other_recipe", 1)
		recheck("a Generate of another recipe over the same word list")
	}
}
