package main

// The only source of pseudo-randomness in the harness. splitmix64 seeds a
// xoshiro256** generator; named sub-streams are derived by hashing the name
// into the seed, so adding a draw to one dimension never shifts another.
// math/rand is deliberately not used (its streams differ between Go releases).

type Rng struct{ s [4]uint64 }

func splitmix64(x *uint64) uint64 {
	*x += 0x9e3779b97f4a7c15
	z := *x
	z = (z ^ (z >> 30)) * 0xbf58476d1ce4e5b9
	z = (z ^ (z >> 27)) * 0x94d049bb133111eb
	return z ^ (z >> 31)
}

func NewRng(seed uint64) *Rng {
	r := &Rng{}
	x := seed
	for i := range r.s {
		r.s[i] = splitmix64(&x)
	}
	return r
}

func rotl(x uint64, k uint) uint64 { return (x << k) | (x >> (64 - k)) }

func (r *Rng) U64() uint64 {
	res := rotl(r.s[1]*5, 7) * 9
	t := r.s[1] << 17
	r.s[2] ^= r.s[0]
	r.s[3] ^= r.s[1]
	r.s[1] ^= r.s[2]
	r.s[0] ^= r.s[3]
	r.s[2] ^= t
	r.s[3] = rotl(r.s[3], 45)
	return res
}

func (r *Rng) U32() uint32 { return uint32(r.U64() >> 32) }

// Intn returns a value in [0,n) (n>0). Bias is irrelevant for a test driver,
// but use rejection anyway so small n are exactly uniform.
func (r *Rng) Intn(n int) int {
	if n <= 1 {
		return 0
	}
	un := uint64(n)
	lim := ^uint64(0) - (^uint64(0))%un
	for {
		v := r.U64()
		if v < lim {
			return int(v % un)
		}
	}
}

func (r *Rng) Bool() bool            { return r.U64()&1 == 1 }
func (r *Rng) Chance(p float64) bool { return float64(r.U64()>>11)/float64(1<<53) < p }
func (r *Rng) Float() float64        { return float64(r.U64()>>11) / float64(1<<53) }

// Perm returns a permutation of 0..n-1 (Fisher-Yates).
func (r *Rng) Perm(n int) []int {
	p := make([]int, n)
	for i := range p {
		p[i] = i
	}
	for i := n - 1; i > 0; i-- {
		j := r.Intn(i + 1)
		p[i], p[j] = p[j], p[i]
	}
	return p
}

func fnv64(s string) uint64 {
	h := uint64(0xcbf29ce484222325)
	for i := 0; i < len(s); i++ {
		h ^= uint64(s[i])
		h *= 0x100000001b3
	}
	return h
}

// mix derives a new seed from a seed and labels.
func mix(seed uint64, labels ...interface{}) uint64 {
	x := seed
	for _, l := range labels {
		switch v := l.(type) {
		case string:
			x ^= fnv64(v)
		case int:
			x ^= uint64(v) * 0x9e3779b97f4a7c15
		case uint64:
			x ^= v * 0xd6e8feb86659fd93
		}
		x = splitmix64(&x)
	}
	return x
}

// Sub returns a named sub-stream of seed.
func Sub(seed uint64, name string) *Rng { return NewRng(mix(seed, name)) }

func pick[T any](r *Rng, xs []T) T { return xs[r.Intn(len(xs))] }
