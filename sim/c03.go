package main

import (
	"fmt"
	"strings"

	"go.1password.io/spg"
)

// ---------------------------------------------------------------------------
// C03: every character password satisfies its recipe; exclusion always wins.
// The validity predicate (model M-char) is evaluated on every simulated
// generation: boundary-biased walks on large recipes (all 2^15 flag triples in
// the thorough tier) and complete sweeps of small ones.
// ---------------------------------------------------------------------------

type C03Spec struct {
	Cfg    CharCfg   `json:"cfg"`
	Orders OrderSpec `json:"orders"`
	Tape   TapeSpec  `json:"tape"`
	N      int       `json:"n"`
	Sweep  bool      `json:"sweep,omitempty"`
	Budget int       `json:"budget,omitempty"`
	// ByteSoup: AllowChars holds stray bytes that are not valid UTF-8 on their own (escaped as in
	// escWord) between ASCII characters. What the alphabet of such a recipe is, the statement does not
	// say; what every returned password still must be is Length atom tokens whose concatenation is
	// String() - nothing else is judged.
	ByteSoup bool `json:"byte_soup,omitempty"`
}

// checkCharPassword applies the C03 predicate to one returned password.
func checkCharPassword(m *MChar, pw *PwView) (bool, string) {
	if len(pw.Tokens) != m.L {
		return false, fmt.Sprintf("%d tokens, want Length=%d", len(pw.Tokens), m.L)
	}
	chars := make([]string, len(pw.Tokens))
	for i, t := range pw.Tokens {
		if t.T != 1 {
			return false, fmt.Sprintf("token %d has type %d, want atom", i, t.T)
		}
		if charLen(t.V) != 1 {
			return false, fmt.Sprintf("token %d %q is not a single character", i, t.V)
		}
		chars[i] = t.V
	}
	if strings.Join(chars, "") != pw.S {
		return false, fmt.Sprintf("String() %q is not the concatenation of the tokens %v", pw.S, chars)
	}
	return m.Satisfies(chars)
}

func checkAlphabet(c *Ctx, m *MChar, rec spg.CharRecipe, cfg CharCfg) bool {
	res := under(NewTape(TapeSpec{Mode: "raw"}), func(r *OpResult) { r.S = rec.Alphabet() })
	c.T(res.tkey())
	if res.Kind != "ok" {
		c.Violate("alphabet", "alphabet-panic", "%s: Alphabet() %s", cfg, res.brief())
		return false
	}
	got := runes(res.S)
	for i := 1; i < len(got); i++ {
		if got[i-1] >= got[i] {
			c.Violate("alphabet", "alphabet-unsorted", "%s: Alphabet() %q is not strictly increasing at %q,%q", cfg, res.S, got[i-1], got[i])
			return false
		}
	}
	if strings.Join(got, "\x00") != strings.Join(m.A, "\x00") {
		c.Violate("alphabet", "alphabet-set", "%s: Alphabet() = %q, the characters that can appear are %q", cfg, res.S, strings.Join(m.A, ""))
		return false
	}
	return true
}

func init() {
	register(&CheckDef{
		ID: "C03", Level: "exploration",
		Technique:   "deterministic simulation: validity predicate as an invariant on every simulated generation; boundary-biased choice walks over large recipes (every flag triple in thorough) and complete choice-tree sweeps of small recipes",
		Rule:        "case = one Generate call (walk step or sweep leaf) checked against the recipe model, plus one Alphabet() call per configuration; distinct by hash of (recipe, returned password); non-trivial = the recipe has an exclusion or a requirement",
		Assumptions: []string{"a required set emptied by exclusion is void (the statement: 'each required set that still has a non-excluded member')", "recipes the library refuses contribute no passwords (refusal is C13's business)"},
		Episodes:    map[string]int{"quick": 12000, "thorough": 1000000},
		TwiceEvery:  9,
		Real:        []string{"CharRecipe.Generate/Alphabet/buildCharacterList/requireFilter", "golang-set"},
		Simulated:   []string{"crypto/rand.Reader (choice tape, boundary-biased or swept)", "alphabet index order (H2)"},
		GenI: func(seed uint64, tier string, i int) interface{} {
			r := Sub(seed, "config")
			s := &C03Spec{Orders: genOrders(r, seed), Tape: TapeSpec{Mode: "choice", Seed: mix(seed, "tape"), Default: "bias"}, N: 6}
			if tier == "thorough" && i < 1<<15 {
				// every one of the 2^15 allow/require/exclude flag triples at least once
				s.Cfg = genCharCfg(r, charOpt{maxLen: 24, maxReq: 0})
				s.Cfg.Allow, s.Cfg.Require, s.Cfg.Exclude = uint32(i)&31, uint32(i>>5)&31, uint32(i>>10)&31
				if r.Chance(0.5) {
					s.Cfg.RequireSets = nil
				}
				return s
			}
			if r.Chance(0.02) {
				s.ByteSoup = true
				var sb strings.Builder
				for k := 2 + r.Intn(4); k > 0; k-- {
					sb.WriteString(pick(r, []string{"\xc3", "\xa9", "\xe2", "\x82", "\xac", "\xf0", "\x9f", "\xc2"}))
					sb.WriteString(pick(r, []string{"|", "a", "", "é"}))
				}
				s.Cfg = CharCfg{Length: 8 + r.Intn(40), AllowChars: escWord(sb.String())}
				return s
			}
			if r.Chance(0.3) {
				s.Sweep = true
				s.Budget = 400
				s.Cfg = genCharCfg(r, charOpt{small: true, budget: 400, maxLen: 5, maxReq: 4})
				return s
			}
			s.Cfg = genCharCfg(r, charOpt{maxLen: 24, maxReq: 6})
			if r.Chance(0.2) {
				s.Cfg.Length = pick(r, []int{25, 36, 40, 64, 100, 118, 128, 150, 200})
				s.N = 3
			}
			return s
		},
		Decode: decodeInto[C03Spec],
		Run:    runC03,
		Shrink: func(si interface{}) []interface{} {
			s := si.(*C03Spec)
			var out []interface{}
			if s.N > 1 {
				n := *s
				n.N = 1
				out = append(out, &n)
			}
			for _, cc := range shrinkCharCfg(s.Cfg) {
				n := *s
				n.Cfg = cc
				out = append(out, &n)
			}
			if s.Orders.Chars != "sorted" {
				n := *s
				n.Orders.Chars = "sorted"
				out = append(out, &n)
			}
			return out
		},
	})
}

func runC03(c *Ctx, si interface{}) {
	s := si.(*C03Spec)
	curOrders = s.Orders
	if s.ByteSoup {
		rec := spg.CharRecipe{Length: s.Cfg.Length, AllowChars: realWord(s.Cfg.AllowChars)}
		for i := 0; i < 8; i++ {
			res := genOp(NewTape(TapeSpec{Mode: "choice", Seed: mix(s.Tape.Seed, "soup", i), Default: "random"}), &rec)
			c.Eval(1)
			// no transcript: on such input the unchanged library's alphabet depends on set iteration
			// order (stray bytes may be glued into one character), so runs legitimately differ
			if res.Kind != "ok" {
				continue
			}
			c.Count("byte_soup_passwords_checked", 1)
			c.Distinct("soup", s.Cfg.AllowChars, res.Pw.S)
			atoms := 0
			for _, t := range res.Pw.Tokens {
				if t.T == 1 {
					atoms++
				}
			}
			if len(res.Pw.Tokens) != s.Cfg.Length || atoms != s.Cfg.Length || joinToks(res.Pw.Tokens) != res.Pw.S {
				c.Violate("invalid-password", "token-count-byte-soup", "CharRecipe{Length: %d, AllowChars: %q}: %d tokens (%d atoms), concatenation equals String(): %v", s.Cfg.Length, realWord(s.Cfg.AllowChars), len(res.Pw.Tokens), atoms, joinToks(res.Pw.Tokens) == res.Pw.S)
				return
			}
		}
		return
	}
	m := modelChar(s.Cfg)
	rec := s.Cfg.Recipe()
	nontrivial := len(m.Req) > 0 || len(m.Excluded) > 0
	if s.Tape.Seed%2 == 0 {
		warmSiblings(c, s.Tape.Seed, s.Cfg)
	}
	if !checkAlphabet(c, m, rec, s.Cfg) {
		return
	}
	c.Eval(1)
	one := func(res OpResult, how string) bool {
		c.T(res.tkey())
		c.Eval(1)
		switch res.Kind {
		case "panic":
			// a panic is C13's business; here it only means no password to check
			c.Count("generation_panicked", 1)
			return true
		case "error":
			c.Count("generation_refused", 1)
			return true
		}
		c.Count("passwords_checked", 1)
		if nontrivial {
			c.Distinct(s.Cfg.String(), res.Pw.S)
		}
		for _, d := range res.Tape.Draws {
			if d.Index == int64(d.N)-1 && d.N > 1 {
				c.Probe("last_alphabet_index_drawn", 1)
				break
			}
		}
		if len(res.Tape.Draws) > m.L {
			c.Probe("generation_with_rejected_candidate", 1)
		}
		if ok, why := checkCharPassword(m, res.Pw); !ok {
			key := "invalid-password"
			for _, t := range res.Pw.Tokens {
				if m.Excluded[t.V] {
					key = "excluded-char"
				}
			}
			c.Violate("invalid-password", key, "%s returned %q (%s): %s", s.Cfg, res.Pw.S, how, why)
			return false
		}
		return true
	}
	if s.Sweep {
		b, _, _ := pilotBounds(sweepCfg{}, func(t *Tape) OpResult { return genOp(t, rec) })
		_ = b
		stop := false
		n, _ := sweep(sweepCfg{Depth: m.L, MaxLeaves: s.Budget * 2}, func(t *Tape) OpResult {
			t.spec.Default = "random"
			t.rng = Sub(s.Tape.Seed, "cont")
			return genOp(t, rec)
		}, func(l *Leaf) bool {
			if !one(l.Res, fmt.Sprintf("sweep path %v", l.Path)) {
				stop = true
				return false
			}
			return true
		})
		c.Count("sweep_leaves", int64(n))
		_ = stop
		// a stream on which every candidate misses a requirement: whatever comes back must still be valid
		if bad := firstFailingPath(m, rec, s.Tape.Seed); bad != nil && !stop {
			var choices []uint32
			for k := 0; k < spg.MaxTrials+2; k++ {
				choices = append(choices, bad...)
			}
			res := genOp(NewTape(TapeSpec{Mode: "choice", Choices: choices, Default: "zero"}), rec)
			c.Probe("all_candidates_fail_stream", 1)
			one(res, "stream on which every candidate misses a requirement")
		}
		return
	}
	for k := 0; k < s.N; k++ {
		ts := s.Tape
		ts.Seed = mix(s.Tape.Seed, k)
		if !one(genOp(NewTape(ts), rec), "walk") {
			return
		}
	}
	// constant streams: every draw picks the same alphabet position, so (with two or more
	// requirements, or a requirement the repeated character does not meet) every candidate fails;
	// whatever Generate answers, a returned password must still satisfy the recipe
	if len(m.Req) > 0 && len(m.A) > 0 && s.Tape.Seed%3 == 0 {
		for _, def := range []string{"zero", "last"} {
			res := genOp(NewTape(TapeSpec{Mode: "choice", Default: def}), rec)
			c.Probe("constant_choice_stream", 1)
			if !one(res, "constant stream ("+def+" index at every draw)") {
				return
			}
		}
	}
	c.Sample(map[string]interface{}{"recipe": s.Cfg.String(), "alphabet_size": len(m.A), "required_sets": len(m.Req)})
}

// firstFailingPath returns the choice path of a candidate the model rejects (nil if none).
func firstFailingPath(m *MChar, rec spg.CharRecipe, seed uint64) []uint32 {
	if len(m.Req) == 0 || m.L < 1 {
		return nil
	}
	pilot := genOp(NewTape(TapeSpec{Mode: "choice", Seed: mix(seed, "ffp"), Default: "random"}), rec)
	if pilot.Kind != "ok" || len(pilot.Tape.CharLists) == 0 {
		return nil
	}
	pos := map[string]uint32{}
	for i, ch := range pilot.Tape.CharLists[0] {
		pos[ch] = uint32(i)
	}
	var bad []uint32
	m.Enumerate(func(cs []string, ok bool) {
		if ok || bad != nil {
			return
		}
		var p []uint32
		for _, ch := range cs {
			i, found := pos[ch]
			if !found {
				return
			}
			p = append(p, i)
		}
		bad = p
	})
	return bad
}
