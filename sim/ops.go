package main

import (
	"fmt"
	"math"
	"strings"
	"sync/atomic"
	"time"

	"go.1password.io/spg"
)

// ---------------------------------------------------------------------------
// Running real spg operations under the simulator.
// ---------------------------------------------------------------------------

type PwView struct {
	Tokens  []Tok   `json:"tokens"`
	S       string  `json:"s"`
	Entropy float32 `json:"entropy"`
}

func viewPw(p *spg.Password) *PwView {
	if p == nil {
		return nil
	}
	v := &PwView{S: p.String(), Entropy: p.Entropy}
	for _, t := range p.Tokens() {
		v.Tokens = append(v.Tokens, Tok{t.Value(), int(t.Type())})
	}
	return v
}

func (v *PwView) key() string {
	if v == nil {
		return "<nil>"
	}
	return tokKey(v.Tokens)
}

type OpResult struct {
	Kind  string // ok | error | panic
	Err   string
	Panic string
	Pw    *PwView
	P     *spg.Password
	F     float64 // numeric result for Entropy / SuccessProbability / Size
	S     string  // string result (Alphabet)
	Out   Captured
	Tape  *Tape
}

func (r OpResult) brief() string {
	switch r.Kind {
	case "ok":
		if r.Pw != nil {
			return fmt.Sprintf("ok pw=%q tokens=%s ent=%v", r.Pw.S, r.Pw.key(), r.Pw.Entropy)
		}
		return fmt.Sprintf("ok f=%v s=%q", r.F, r.S)
	case "error":
		return "error: " + r.Err
	}
	return "panic: " + r.Panic
}

// tkey is what goes into episode transcripts: the outcome class and the values, but not error or
// panic texts (a message may legitimately name things in an order that depends on map iteration).
func (r OpResult) tkey() string {
	switch r.Kind {
	case "ok":
		return r.brief()
	}
	return r.Kind
}

// under runs f with tape t installed and output captured. Harness sentinels
// propagate; any other panic is an outcome of the operation.
// opClock lets the watchdog see how long the library call in progress has been running.
var opClock struct {
	start      int64 // unix nanoseconds of the call in progress, 0 when none (accessed atomically)
	longest    int64 // longest completed call in this process, nanoseconds (evidence: margin of the hang watchdog)
	longestCPU int64 // see hangWatch
}

func opDone(t0 int64) {
	atomic.StoreInt64(&opClock.start, 0)
	d := time.Now().UnixNano() - t0
	for {
		old := atomic.LoadInt64(&opClock.longest)
		if d <= old || atomic.CompareAndSwapInt64(&opClock.longest, old, d) {
			return
		}
	}
}

func under(t *Tape, f func(r *OpResult)) (res OpResult) {
	t0 := time.Now().UnixNano()
	atomic.StoreInt64(&opClock.start, t0)
	defer opDone(t0)
	prev := simr.cur
	simr.cur = t
	m := mark()
	res.Tape = t
	res.Kind = "ok"
	defer func() {
		simr.cur = prev
		res.Out = since(m)
		if r := recover(); r != nil {
			if s, ok := r.(sentinel); ok {
				if s != sentRunaway {
					panic(s)
				}
				res.Kind = "runaway"
				res.Panic = "the operation kept reading the random source without end (harness limit)"
				res.Pw, res.P = nil, nil
				return
			}
			res.Kind = "panic"
			res.Panic = fmt.Sprint(r)
			res.Pw = nil
			res.P = nil
		}
	}()
	f(&res)
	return
}

// asGen turns a recipe value or pointer into a Generator through a pointer, so
// that the harness compiles and behaves the same whether the library's methods
// have value or pointer receivers.
func asGen(x interface{}) spg.Generator {
	switch v := x.(type) {
	case spg.CharRecipe:
		c := v
		return &c
	case *spg.CharRecipe:
		return v
	case spg.WLRecipe:
		c := v
		return &c
	case *spg.WLRecipe:
		return v
	case spg.Generator:
		return v
	}
	panic(fmt.Sprintf("asGen: unsupported %T", x))
}

func genOp(t *Tape, x interface{}) OpResult {
	g := asGen(x)
	return under(t, func(r *OpResult) {
		p, err := g.Generate()
		if err != nil {
			r.Kind = "error"
			r.Err = err.Error()
			if p != nil {
				r.Pw = viewPw(p) // a password together with an error: checked by C13
			}
			return
		}
		if p == nil {
			r.Kind = "error"
			r.Err = "<nil password, nil error>"
			return
		}
		r.Pw = viewPw(p)
		r.P = p
	})
}

func entropyOp(t *Tape, x interface{}) OpResult {
	g := asGen(x)
	return under(t, func(r *OpResult) { r.F = float64(g.Entropy()) })
}

// ---------------------------------------------------------------------------
// Wordlist recipe configurations
// ---------------------------------------------------------------------------

type SepCfg struct {
	Kind   string   `json:"kind"` // char | preset | recipe | draw | altempty | nilfunc
	Char   string   `json:"char,omitempty"`
	Preset string   `json:"preset,omitempty"`
	Recipe *CharCfg `json:"recipe,omitempty"`
	Vals   []string `json:"vals,omitempty"`
}

type WLCfg struct {
	AlsoChar string   `json:"also_char,omitempty"` // SeparatorChar set although a SeparatorFunc is given (the function takes precedence)
	Words    []string `json:"words"`
	NilList  bool     `json:"nil_list,omitempty"`
	Length   int      `json:"length"`
	Cap      string   `json:"cap"`
	Sep      SepCfg   `json:"sep"`
}

var presetFuncs = map[string]spg.SFFunction{
	"SFNone":               spg.SFNone,
	"SFDigits1":            spg.SFDigits1,
	"SFDigits2":            spg.SFDigits2,
	"SFDigitsNoAmbiguous1": spg.SFDigitsNoAmbiguous1,
	"SFDigitsNoAmbiguous2": spg.SFDigitsNoAmbiguous2,
	"SFSymbols":            spg.SFSymbols,
	"SFDigitsSymbols":      spg.SFDigitsSymbols,
}

// what each preset is documented to yield (C16 statement), as a recipe model
var presetModels = map[string]*CharCfg{
	"SFDigits1":            {Length: 1, Allow: 4},
	"SFDigits2":            {Length: 2, Allow: 4},
	"SFDigitsNoAmbiguous1": {Length: 1, Allow: 4, Exclude: 16},
	"SFDigitsNoAmbiguous2": {Length: 2, Allow: 4, Exclude: 16},
	"SFSymbols":            {Length: 1, Allow: 8},
	"SFDigitsSymbols":      {Length: 1, Allow: 12},
}

var presetNames = []string{"SFNone", "SFDigits1", "SFDigits2", "SFDigitsNoAmbiguous1", "SFDigitsNoAmbiguous2", "SFSymbols", "SFDigitsSymbols"}

// sepFunc builds the spg.SFFunction for a SepCfg (nil: use SeparatorChar).
func (s SepCfg) fn() spg.SFFunction {
	switch s.Kind {
	case "preset":
		return presetFuncs[s.Preset]
	case "recipe":
		return spg.NewSFFunction(s.Recipe.Recipe())
	case "draw0":
		// a caller-written function that draws uniformly among its values but reports entropy 0
		vals := append([]string(nil), s.Vals...)
		return func() (string, spg.FloatE) {
			return vals[spg.VerifRandomUint32n(uint32(len(vals)))], 0
		}
	case "weird":
		// a caller-written function whose reported entropy is not a sensible number
		v := s.Char
		e := spg.FloatE(math.NaN())
		switch s.Preset {
		case "neg":
			e = -1
		case "inf":
			e = spg.FloatE(math.Inf(1))
		}
		return func() (string, spg.FloatE) { return v, e }
	case "draw":
		vals := append([]string(nil), s.Vals...)
		ent := spg.FloatE(math.Log2(float64(len(vals))))
		return func() (string, spg.FloatE) {
			return vals[spg.VerifRandomUint32n(uint32(len(vals)))], ent
		}
	case "altempty":
		k := 0
		v := s.Char
		return func() (string, spg.FloatE) {
			k++
			if k%2 == 0 {
				return "", 0
			}
			return v, 0
		}
	}
	return nil
}

// law returns the separator's law (nil if unknown / not enumerable).
func (s SepCfg) law() *SepLaw {
	switch s.Kind {
	case "char":
		return constSep(s.Char)
	case "preset":
		if s.Preset == "SFNone" {
			return constSep("")
		}
		l, ok := recipeSepLaw(*presetModels[s.Preset], 5000)
		if !ok {
			return nil
		}
		return l
	case "recipe":
		m := modelChar(*s.Recipe)
		if m.L < 1 || len(m.A) == 0 {
			// the wrapped recipe fails: the separator function is documented to
			// swallow the error and yield "" with entropy 0
			return constSep("")
		}
		if len(m.Req) > 0 {
			p := m.SuccessProb()
			if p.Sign() == 0 {
				return constSep("")
			}
			switch e, _ := refusalExpectation(ratToFloat(p), float64(m.L)*math.Log2(float64(len(m.A))), spg.MaxTrials, spg.MaxFailRate); e {
			case "error":
				return constSep("") // refused by the fail-rate check every time: "" with entropy 0
			case "dontcare":
				return nil
			}
			// accepted: a rare exhaustion of all attempts would yield "" - not an exact law; only
			// recipes without requirements or refused ones are swept
			if ratToFloat(p) < 1 {
				return nil
			}
		}
		l, ok := recipeSepLaw(*s.Recipe, 5000)
		if !ok {
			return nil
		}
		return l
	case "draw0":
		l := &SepLaw{Entropy: 0}
		for _, v := range s.Vals {
			l.Vals = append(l.Vals, v)
			l.Probs = append(l.Probs, ratFrac(1, int64(len(s.Vals))))
		}
		return l
	case "draw":
		l := &SepLaw{Entropy: math.Log2(float64(len(s.Vals)))}
		for _, v := range s.Vals {
			l.Vals = append(l.Vals, v)
			l.Probs = append(l.Probs, ratFrac(1, int64(len(s.Vals))))
		}
		return l
	}
	return nil
}

type builtWL struct {
	Recipe spg.WLRecipe
	List   *spg.WordList
	Err    string
	Out    Captured
}

// build constructs the real word list and recipe.
func (c WLCfg) build() builtWL {
	var b builtWL
	m := mark()
	var wl *spg.WordList
	if !c.NilList {
		in := append([]string{}, realWords(c.Words)...)
		var err error
		wl, err = spg.NewWordList(in)
		if err != nil {
			b.Err = err.Error()
		}
		// the slice belongs to the caller, who is free to reuse it: a word list that aliases
		// it would now generate these markers instead of words
		for i := range in {
			in[i] = "\x00reused-by-caller"
		}
	}
	b.List = wl
	r := spg.NewWLRecipe(c.Length, wl)
	r.Capitalize = spg.CapScheme(c.Cap)
	if c.Sep.Kind == "char" {
		r.SeparatorChar = c.Sep.Char
	} else {
		r.SeparatorFunc = c.Sep.fn()
		r.SeparatorChar = c.AlsoChar
	}
	b.Recipe = *r
	b.Out = since(m)
	return b
}

func (c WLCfg) String() string {
	w := c.Words
	if len(w) > 12 {
		w = append(append([]string{}, w[:12]...), fmt.Sprintf("...(%d words)", len(c.Words)))
	}
	return fmt.Sprintf("{words:%q L:%d cap:%s sep:%s}", w, c.Length, c.Cap, c.Sep)
}

func (s SepCfg) String() string {
	switch s.Kind {
	case "char":
		return fmt.Sprintf("char(%q)", s.Char)
	case "preset":
		return s.Preset
	case "recipe":
		return "recipe" + s.Recipe.String()
	case "draw", "draw0":
		return fmt.Sprintf("%s%q", s.Kind, s.Vals)
	}
	return s.Kind + "(" + s.Char + ")"
}

func joinToks(ts []Tok) string {
	var b strings.Builder
	for _, t := range ts {
		b.WriteString(t.V)
	}
	return b.String()
}

// warmSiblings evaluates every public method on colliding sibling recipes first, so that a
// process-wide memo keyed too coarsely is filled with the *wrong* entry before the recipe
// under test is evaluated (results are discarded; the output is drained).
func warmSiblings(c *Ctx, seed uint64, cfg CharCfg) {
	if len(cfg.RequireSets) > 8 {
		// the library's count is exponential in the number of required sets (seconds per call at
		// 11-13 sets): no sibling warm-ups for these configurations
		return
	}
	r := Sub(seed, "siblings")
	sibs := charSiblings(r, cfg)
	for i, sc := range sibs {
		rec := sc.Recipe()
		genOp(NewTape(TapeSpec{Mode: "choice", Seed: mix(seed, "sib", i), Default: "random"}), &rec)
		entropyOp(NewTape(TapeSpec{Mode: "raw"}), &rec)
		under(NewTape(TapeSpec{Mode: "raw"}), func(r *OpResult) { r.F = float64(rec.SuccessProbability()); r.S = rec.Alphabet() })
	}
	if len(sibs) > 0 {
		c.Probe("colliding_sibling_recipes_evaluated_first", int64(len(sibs)))
	}
}
