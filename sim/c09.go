package main

import (
	"encoding/binary"
	"fmt"
	"math/big"

	_ "go.1password.io/spg"
)

// ---------------------------------------------------------------------------
// C09: all randomness comes from the OS source; generation fails closed.
// Fault enumeration: for each sampled configuration a fault-free pilot run
// records the R reads of one generation; then every read position is faulted
// with every fault kind, and the same bytes are replayed under different
// chunking schedules.
// ---------------------------------------------------------------------------

type C09Spec struct {
	Char     *CharCfg  `json:"char,omitempty"`
	WL       *WLCfg    `json:"wl,omitempty"`
	Orders   OrderSpec `json:"orders"`
	TapeSeed uint64    `json:"tape_seed"`
	AllReads bool      `json:"all_reads"`
	Only     *Fault    `json:"only,omitempty"` // replay / shrinking: just this fault
	OnlyStep string    `json:"only_step,omitempty"`
}

var errKinds = []string{"ERR0", "ERR1", "ERR2", "ERR3", "EOF", "TMP0", "TMP2", "ONCE0", "ONCE1"}

func wordsOf(b []byte) []uint32 {
	var w []uint32
	for i := 0; i+4 <= len(b); i += 4 {
		w = append(w, binary.BigEndian.Uint32(b[i:]))
	}
	return w
}

func sameResult(a, b OpResult) bool {
	if a.Kind != b.Kind {
		return false
	}
	if a.Kind == "ok" {
		return a.Pw.key() == b.Pw.key() && (a.Pw.Entropy == b.Pw.Entropy || (a.Pw.Entropy != a.Pw.Entropy && b.Pw.Entropy != b.Pw.Entropy))
	}
	return true
}

func init() {
	register(&CheckDef{
		ID: "C09", Level: "fault_enumeration",
		Technique:   "deterministic simulation with read-fault enumeration on the scripted crypto/rand.Reader: every read position of a sampled generation x {error after 0-3 bytes, EOF, short successful reads, zero-length reads}, chunking schedules over identical bytes, post-fault health, dependence on and only on the consumed bytes",
		Rule:        "case = one generation under one fault plan or chunking schedule; distinct by hash of (configuration, tape, fault); non-trivial = a fault or a non-trivial chunking is actually delivered inside the generation",
		Assumptions: []string{"go1.23.5 semantics: crypto/rand.Read = io.ReadFull(rand.Reader, b); from go1.24 a failing Reader kills the process instead (still fails closed, observable only from outside)", "outcome classes: a returned error, a recovered panic and abnormal exit are all 'aborted'"},
		Episodes:    map[string]int{"quick": 1600, "thorough": 100000},
		TwiceEvery:  5,
		Real:        []string{"randomUint32/randomUint32n", "crypto/rand.Read + io.ReadFull (std)", "CharRecipe.Generate", "WLRecipe.Generate", "separator functions"},
		Simulated:   []string{"crypto/rand.Reader: byte values, chunking, short/zero reads, errors, EOF"},
		Gen: func(seed uint64, tier string) interface{} {
			r := Sub(seed, "config")
			s := &C09Spec{Orders: genOrders(r, seed), TapeSeed: mix(seed, "tape"), AllReads: tier == "thorough" || r.Chance(0.25)}
			if r.Chance(0.5) {
				cc := genCharCfg(r, charOpt{maxLen: 16, maxReq: 3, noEmptied: r.Chance(0.7)})
				if r.Chance(0.5) {
					cc = genCharCfg(r, charOpt{small: true, budget: 4000, maxLen: 6, maxReq: 3, noEmptied: r.Chance(0.7)})
				}
				if r.Chance(0.015) {
					// very long passwords (bulk paths, block boundaries)
					cc = CharCfg{Length: pick(r, []int{511, 512, 513, 4096, 16383, 16384, 16385, 16584, 20000}), Allow: pick(r, []uint32{4, 7, 15}), Exclude: pick(r, []uint32{0, 16})}
					s.AllReads = false
				}
				s.Char = &cc
			} else {
				w := genWLCfg(r, wlOpt{list: listOpt{min: 1, max: 8, twins: 0.2, precap: 0.1, caseless: 0.1, dups: 0.1}, maxLen: 5})
				if r.Chance(0.5) {
					w.Sep = SepCfg{Kind: "preset", Preset: pick(r, presetNames[1:])}
				}
				s.WL = &w
			}
			return s
		},
		Decode: decodeInto[C09Spec],
		Run:    runC09,
		Shrink: func(si interface{}) []interface{} {
			s := si.(*C09Spec)
			var out []interface{}
			if s.Char != nil {
				for _, cc := range shrinkCharCfg(*s.Char) {
					n := *s
					c2 := cc
					n.Char = &c2
					out = append(out, &n)
				}
			}
			if s.WL != nil {
				for _, w := range shrinkWLCfg(*s.WL) {
					n := *s
					w2 := w
					n.WL = &w2
					out = append(out, &n)
				}
			}
			return out
		},
	})
}

func runC09(c *Ctx, si interface{}) {
	s := si.(*C09Spec)
	curOrders = s.Orders
	var g interface{}
	var desc string
	outputs := big.NewInt(1)
	if s.Char != nil {
		g = s.Char.Recipe()
		desc = "CharRecipe" + s.Char.String()
		outputs = modelChar(*s.Char).Count()
	} else {
		b := s.WL.build()
		if b.List == nil {
			c.Count("list_refused", 1)
			return
		}
		g = b.Recipe
		desc = "WLRecipe" + s.WL.String()
		n := len(modelList(s.WL.Words).Kept)
		outputs = new(big.Int).Exp(big.NewInt(int64(n)), big.NewInt(int64(s.WL.Length)), nil)
	}
	run := func(ts TapeSpec) OpResult {
		res := genOp(NewTape(ts), g)
		c.Eval(1)
		c.T(res.tkey())
		return res
	}
	// fault-free pilot
	pilot := run(TapeSpec{Mode: "raw", Seed: s.TapeSeed, Default: "random"})
	if pilot.Kind != "ok" {
		c.Count("pilot_"+pilot.Kind, 1)
		return
	}
	if s.Char != nil && len(pilot.Tape.CharLists) == 0 {
		panic(sentCannotDrive) // the alphabet never passed through hook H2: index order not owned, results not comparable
	}
	R := len(pilot.Tape.Reads)
	used := wordsOf(pilot.Tape.Served)
	c.Count("pilot_reads", int64(R))
	// every announced choice among two or more alternatives needs at least one fresh raw word
	announced := 0
	for _, d := range pilot.Tape.Draws {
		if d.N >= 2 {
			announced++
		}
	}
	if len(pilot.Tape.Served)/4 < announced {
		c.Violate("choices-without-source-bytes", "", "%s: %d bounded draws were made but only %d raw words (%d bytes) were read from the source: some choices do not come from source bytes", desc, announced, len(pilot.Tape.Served)/4, len(pilot.Tape.Served))
		return
	}
	if R > 2000 {
		c.Probe("generation_with_more_than_2000_reads", 1)
	}
	// a long password drawn from a random tape cannot contain a run of 64 identical characters
	// (probability below length * 2^-63 for any alphabet of two or more characters): such a run
	// means those positions were not drawn from the source (an unfilled buffer decodes to one index)
	if s.Char != nil && pilot.Pw != nil && len(pilot.Pw.Tokens) >= 256 && len(modelChar(*s.Char).A) >= 2 {
		run, best, at := 1, 1, 0
		for i := 1; i < len(pilot.Pw.Tokens); i++ {
			if pilot.Pw.Tokens[i].V == pilot.Pw.Tokens[i-1].V {
				run++
				if run > best {
					best, at = run, i-run+1
				}
			} else {
				run = 1
			}
		}
		c.Probe("long_password_run_length_checked", 1)
		if best >= 64 {
			c.Violate("choices-without-source-bytes", "constant-run", "%s: positions %d..%d of the %d-character password are all %q although the source bytes are random: those choices were not drawn from the source", desc, at, at+best-1, len(pilot.Pw.Tokens), pilot.Pw.Tokens[at].V)
			return
		}
	}
	if R == 0 {
		if outputs.Cmp(big.NewInt(1)) > 0 {
			c.Violate("no-source-read", "", "%s generated %q without reading the random source although %s outputs are possible", desc, pilot.Pw.S, outputs)
		}
		return
	}
	want := func(step string) bool { return s.OnlyStep == "" || s.OnlyStep == step }
	narrow := func(step string, f *Fault) {
		n := *s
		n.OnlyStep = step
		n.Only = f
		c.Narrow(&n)
	}
	// (0) same tape twice -> same result (no hidden source)
	if want("repeat") {
		for rep := 0; rep < 4; rep++ {
			again := run(TapeSpec{Mode: "raw", Seed: s.TapeSeed, Default: "random"})
			if !sameResult(pilot, again) {
				c.Violate("not-a-function-of-the-tape", "", "%s: the same source bytes gave %s and then %s", desc, pilot.brief(), again.brief())
				narrow("repeat", nil)
				return
			}
		}
	}
	// (a) chunking: identical bytes, different read chunking
	if want("chunk") {
		for _, ch := range []string{"one", "rand3", "zerothen"} {
			res := run(TapeSpec{Mode: "raw", Seed: s.TapeSeed, Words: used, Default: "random", Chunk: ch})
			for k, v := range res.Tape.Fired {
				c.Fault(k, int64(v))
			}
			c.Distinct(desc, s.TapeSeed, "chunk", ch)
			if res.Kind != "ok" {
				// the statement can also be read as "fewer bytes than requested at a read => abort":
				// failing closed on a short read is accepted, a *different password* is not
				c.Count("aborted_on_chunked_delivery", 1)
				continue
			}
			if !sameResult(pilot, res) {
				c.Violate("chunking-changes-result", "", "%s: bytes delivered in chunks (%s) gave %s, delivered whole they gave %s", desc, ch, res.brief(), pilot.brief())
				narrow("chunk", nil)
				return
			}
		}
	}
	// (d) bytes beyond the consumed prefix never influence the result
	if want("suffix") {
		res := run(TapeSpec{Mode: "raw", Seed: s.TapeSeed ^ 0xabcdef, Words: used, Default: "zero"})
		if !sameResult(pilot, res) {
			c.Violate("unconsumed-bytes-matter", "", "%s: same consumed bytes, different later bytes: %s vs %s", desc, res.brief(), pilot.brief())
			narrow("suffix", nil)
			return
		}
	}
	// (d') the result depends on the source bytes at all
	if want("depends") && outputs.Cmp(big.NewInt(1<<20)) >= 0 {
		allSame := true
		for k := 1; k <= 3; k++ {
			res := run(TapeSpec{Mode: "raw", Seed: mix(s.TapeSeed, "other", k), Default: "random"})
			if !sameResult(pilot, res) {
				allSame = false
				break
			}
		}
		c.Probe("dependence_on_source_checked", 1)
		if allSame {
			c.Violate("independent-of-source", "", "%s: four different source streams all gave %s although %s outputs are possible", desc, pilot.brief(), outputs)
			narrow("depends", nil)
			return
		}
	}
	// healthy reference for the post-fault generation
	healthySeed := mix(s.TapeSeed, "healthy")
	ref := run(TapeSpec{Mode: "raw", Seed: healthySeed, Default: "random"})
	// (b') a transient failure that hits the redraw after a rejected raw word
	if want("redraw") {
		r := Sub(s.TapeSeed, "redrawpick")
		for tries := 0; tries < 3 && len(used) > 0; tries++ {
			k := r.Intn(len(used))
			words := append(append(append([]uint32{}, used[:k]...), 0xFFFFFFFF), used[k:]...)
			for _, kind := range []string{"ONCE0", "ONCE1", "TMP0"} {
				f := Fault{Read: k + 1, Kind: kind}
				res := run(TapeSpec{Mode: "raw", Seed: s.TapeSeed, Words: words, Default: "random", Faults: []Fault{f}})
				fired := 0
				for kk, v := range res.Tape.Fired {
					c.Fault(kk+"-after-rejected-word", int64(v))
					fired += v
				}
				if fired == 0 {
					continue
				}
				c.Distinct(desc, s.TapeSeed, "redraw", kind, k)
				if k+1 < len(res.Tape.Reads) {
					c.Probe("fault_on_the_read_after_a_maximal_raw_word", 1)
				}
				if res.Kind == "ok" {
					c.Violate("password-after-read-error", "password-after-transient-error-on-redraw", "%s: read %d returned the raw word 0xFFFFFFFF, read %d failed once (%s) and Generate still returned %q", desc, k, k+1, kind, res.Pw.S)
					narrow("redraw", nil)
					return
				}
			}
		}
	}
	// (b) failure at read k
	if want("fault") {
		r := Sub(s.TapeSeed, "faultpick")
		for k := 0; k < R; k++ {
			if s.Only == nil && !s.AllReads && k != 0 && k != R-1 && r.Intn(3) != 0 {
				continue
			}
			if s.Only == nil && R > 400 && k != 0 && k != R-1 && r.Intn(R) >= 8 {
				continue // very long generations: first, last and a seeded two dozen read positions
			}
			kinds := append([]string{}, errKinds...)
			kinds = append(kinds, "SHORT1", "SHORT3", "ZERO2")
			for _, kind := range kinds {
				f := Fault{Read: k, Kind: kind}
				switch kind {
				case "SHORT1":
					f = Fault{Read: k, Kind: "SHORT", Arg: 1}
				case "SHORT3":
					f = Fault{Read: k, Kind: "SHORT", Arg: 3}
				case "ZERO2":
					f = Fault{Read: k, Kind: "ZERO", Arg: 2}
				}
				if s.Only != nil && (*s.Only != f) {
					continue
				}
				res := run(TapeSpec{Mode: "raw", Seed: s.TapeSeed, Words: used, Default: "random", Faults: []Fault{f}})
				fired := 0
				for kk, v := range res.Tape.Fired {
					c.Fault(kk, int64(v))
					fired += v
				}
				if fired == 0 {
					c.Count("fault_not_reached", 1)
					continue
				}
				c.Distinct(desc, s.TapeSeed, f.Kind, f.Arg, f.Read)
				if k < len(pilot.Tape.Reads) && s.WL != nil && (pilot.Tape.Reads[k].Site == "sfWrap" || pilot.Tape.Reads[k].Site == "CharRecipe.Generate:afterBuild") {
					c.Probe("fault_inside_separator_generation", 1)
				}
				if k == R-1 {
					c.Probe("fault_at_last_read", 1)
				}
				isErr := f.Kind != "SHORT" && f.Kind != "ZERO"
				if isErr {
					if res.Kind == "ok" {
						c.Violate("password-after-read-error", "", "%s: read %d of %d failed (%s) and Generate still returned %q", desc, k, R, f.Kind, res.Pw.S)
						ff := f
						narrow("fault", &ff)
						return
					}
					if res.Kind == "runaway" {
						c.Violate("hang-after-read-error", "", "%s: read %d of %d failed (%s) and Generate kept reading the failed source", desc, k, R, f.Kind)
						ff := f
						narrow("fault", &ff)
						return
					}
					if res.Kind == "error" && res.Pw != nil {
						c.Violate("password-after-read-error", "", "%s: read %d failed (%s): an error together with a password %q", desc, k, f.Kind, res.Pw.S)
						ff := f
						narrow("fault", &ff)
						return
					}
					c.Count("aborted_"+res.Kind, 1)
					// (c) after the fault: a healthy generation is unaffected
					after := run(TapeSpec{Mode: "raw", Seed: healthySeed, Default: "random"})
					if !sameResult(ref, after) {
						c.Violate("poisoned-after-fault", "", "%s: after a failed read (%s at %d) a generation on a healthy source gave %s, in fresh state it gives %s", desc, f.Kind, k, after.brief(), ref.brief())
						ff := f
						narrow("fault", &ff)
						return
					}
				} else {
					// short / zero-length successful reads are legal chunking: same result (or, on the
					// other reading of the statement, an abort) - never a different password
					if res.Kind != "ok" {
						c.Count("aborted_on_short_read", 1)
					} else if !sameResult(pilot, res) {
						c.Violate("short-read-changes-result", "", "%s: a short successful read (%s %d at read %d) gave %s instead of %s", desc, f.Kind, f.Arg, k, res.brief(), pilot.brief())
						ff := f
						narrow("fault", &ff)
						return
					}
				}
			}
		}
	}
	c.Sample(map[string]interface{}{"config": desc, "reads_in_generation": R, "bytes_consumed": len(pilot.Tape.Served), "password": pilot.Pw.S})
	_ = fmt.Sprint
}
