package main

import (
	"bytes"
	"fmt"
	"log"
	"os"
	"syscall"
)

// Output monitor (N5). For the whole life of a worker process fd 1 and fd 2
// point at unlinked temporary files and the standard logger writes to a
// buffer; the harness itself reports through saved duplicates of the original
// descriptors. A mark/since pair gives exactly the bytes an operation wrote.

type capMark struct {
	out, err int64
	log      int
}

var capt struct {
	on         bool
	fout, ferr *os.File
	logbuf     bytes.Buffer
	realOut    *os.File
	realErr    *os.File
}

func startCapture(dir string) error {
	fo, err := os.CreateTemp(dir, "cap-out-")
	if err != nil {
		return err
	}
	fe, err := os.CreateTemp(dir, "cap-err-")
	if err != nil {
		return err
	}
	os.Remove(fo.Name())
	os.Remove(fe.Name())
	ro, err := syscall.Dup(1)
	if err != nil {
		return err
	}
	re, err := syscall.Dup(2)
	if err != nil {
		return err
	}
	capt.realOut = os.NewFile(uintptr(ro), "real-stdout")
	capt.realErr = os.NewFile(uintptr(re), "real-stderr")
	if err := syscall.Dup2(int(fo.Fd()), 1); err != nil {
		return err
	}
	if err := syscall.Dup2(int(fe.Fd()), 2); err != nil {
		return err
	}
	capt.fout, capt.ferr = fo, fe
	log.SetOutput(&capt.logbuf)
	log.SetFlags(0)
	capt.on = true
	return nil
}

func fsize(f *os.File) int64 {
	var st syscall.Stat_t
	if err := syscall.Fstat(int(f.Fd()), &st); err != nil {
		return -1
	}
	return st.Size
}

func mark() capMark {
	if !capt.on {
		return capMark{}
	}
	return capMark{fsize(capt.fout), fsize(capt.ferr), capt.logbuf.Len()}
}

type Captured struct {
	Stdout, Stderr, Log string
}

func (c Captured) Empty() bool { return c.Stdout == "" && c.Stderr == "" && c.Log == "" }
func (c Captured) All() string { return c.Stdout + c.Stderr + c.Log }
func (c Captured) String() string {
	if c.Empty() {
		return ""
	}
	return fmt.Sprintf("stdout=%q stderr=%q log=%q", c.Stdout, c.Stderr, c.Log)
}

func readFrom(f *os.File, from int64) string {
	sz := fsize(f)
	if sz <= from {
		return ""
	}
	b := make([]byte, sz-from)
	n, _ := f.ReadAt(b, from)
	return string(b[:n])
}

func since(m capMark) Captured {
	if !capt.on {
		return Captured{}
	}
	var c Captured
	c.Stdout = readFrom(capt.fout, m.out)
	c.Stderr = readFrom(capt.ferr, m.err)
	if capt.logbuf.Len() > m.log {
		c.Log = string(capt.logbuf.Bytes()[m.log:])
	}
	return c
}

// diag writes harness diagnostics to the real stderr.
func diag(format string, a ...interface{}) {
	w := os.Stderr
	if capt.on {
		w = capt.realErr
	}
	fmt.Fprintf(w, format+"\n", a...)
}
