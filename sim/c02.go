package main

import (
	"fmt"
	"math/big"
	"sort"
	"strings"

	"go.1password.io/spg"
)

// ---------------------------------------------------------------------------
// C02: character passwords uniform over exactly the allowed strings.
// Complete choice-tree sweeps of small recipes; the exact law of the first
// candidate level, and of candidate levels reached after forced rejected
// candidates, must be constant on the model's string set S and zero elsewhere.
// ---------------------------------------------------------------------------

type C02Spec struct {
	Cfg       CharCfg   `json:"cfg"`
	Orders    OrderSpec `json:"orders"`
	Seed      uint64    `json:"seed"`
	Budget    int       `json:"budget"`
	Levels    int       `json:"levels"`
	MaxTrials int       `json:"max_trials,omitempty"`
}

// knobZeroTrials: the caller really means MaxTrials = 0 (otherwise 0 is "leave the default").
var knobZeroTrials, knobZeroFail bool

func withKnobs(maxTrials int, maxFail float64, f func()) {
	oldT, oldF := spg.MaxTrials, spg.MaxFailRate
	if maxTrials != 0 || knobZeroTrials {
		spg.MaxTrials = maxTrials // zero and negative values are legal assignments to the exported knob
	}
	if maxFail > 0 || knobZeroFail {
		spg.MaxFailRate = maxFail
	}
	defer func() { spg.MaxTrials, spg.MaxFailRate = oldT, oldF }()
	f()
}

// charSweep holds what a level sweep found.
type levelLaw struct {
	law      Law
	rejected *big.Rat
	rejPaths [][]uint32
	leaves   int
	complete bool
	badLeaf  string
}

func sweepCharLevel(c *Ctx, rec spg.CharRecipe, L int, prefix, cont []uint32, budget int, r *Rng, S map[string]bool) levelLaw {
	ll := levelLaw{law: Law{}, rejected: new(big.Rat)}
	seenRej := 0
	ll.leaves, ll.complete = sweep(sweepCfg{Prefix: prefix, Depth: L, Cont: cont, MaxLeaves: budget}, func(t *Tape) OpResult {
		// beyond the enumerated depth and the known-good continuation: seeded random choices
		t.spec.Default = "random"
		t.rng = Sub(0x5eed, "continuation")
		return genOp(t, rec)
	}, func(l *Leaf) bool {
		c.T(l.Res.tkey())
		if l.Res.Kind == "error" && l.Draws >= spg.MaxTrials {
			// a give-up after at least as many draws as attempts are permitted: every attempt needs at
			// least one draw (an implementation may draw several characters at once), so the permitted
			// attempts may all have been made; whether the budget was honoured exactly is C13's business
			return true
		}
		if l.Res.Kind != "ok" {
			if ll.badLeaf == "" {
				ll.badLeaf = fmt.Sprintf("path %v (after prefix %v): %s", l.Path, prefix, l.Res.brief())
			}
			return true
		}
		out := l.Res.Pw.S
		if !S[out] && ll.badLeaf == "" {
			ll.badLeaf = fmt.Sprintf("path %v (after prefix %v) returned %q which the recipe does not allow", l.Path, prefix, out)
		}
		if l.Terminal {
			ll.law.add(out, l.P)
		} else {
			ll.rejected.Add(ll.rejected, l.P)
			seenRej++
			// reservoir sample of rejected candidate paths
			if len(ll.rejPaths) < 3 {
				ll.rejPaths = append(ll.rejPaths, append([]uint32{}, l.Path...))
			} else if j := r.Intn(seenRej); j < 3 {
				ll.rejPaths[j] = append([]uint32{}, l.Path...)
			}
		}
		return true
	})
	return ll
}

// checkLevel: the level's law must be constant on S and have support exactly S.
func checkLevel(c *Ctx, name string, ll levelLaw, S map[string]bool, cfg CharCfg) bool {
	if ll.badLeaf != "" {
		c.Violate("bad-leaf", "", "%s %s: %s", cfg, name, ll.badLeaf)
		return false
	}
	if !ll.complete {
		return true // partial sweeps decide nothing about the law
	}
	var ref *big.Rat
	var refK string
	keys := make([]string, 0, len(ll.law))
	for k := range ll.law {
		keys = append(keys, k)
	}
	sort.Strings(keys)
	for _, k := range keys {
		p := ll.law[k]
		if !S[k] {
			c.Violate("support", "", "%s %s: string %q is returned (probability %s) but is not allowed by the recipe", cfg, name, k, p.RatString())
			return false
		}
		if ref == nil {
			ref, refK = p, k
		} else if p.Cmp(ref) != 0 {
			c.Violate("not-uniform", "", "%s %s: %q has probability %s but %q has %s", cfg, name, k, p.RatString(), refK, ref.RatString())
			return false
		}
	}
	if len(ll.law) != len(S) {
		var missing []string
		for s := range S {
			if _, ok := ll.law[s]; !ok {
				missing = append(missing, s)
			}
		}
		sort.Strings(missing)
		if len(missing) > 5 {
			missing = missing[:5]
		}
		c.Violate("support", "", "%s %s: %d of the %d allowed strings are never returned, e.g. %q", cfg, name, len(S)-len(ll.law), len(S), missing)
		return false
	}
	return true
}

// prepareChar does the common preparation for char sweeps: model, string set,
// a pilot generation, the real ordered alphabet and a satisfying path.
type charPrep struct {
	m      *MChar
	S      map[string]bool
	chars  []string
	good   []uint32
	refuse string // non-empty: Generate refused / failed on the pilot
	pilot  OpResult
}

func prepareChar(c *Ctx, cfg CharCfg, rec spg.CharRecipe, seed uint64) (p charPrep) {
	p.m = modelChar(cfg)
	p.S = map[string]bool{}
	var g []string
	p.m.Enumerate(func(chars []string, ok bool) {
		if ok {
			p.S[strings.Join(chars, "")] = true
			if g == nil {
				g = append([]string{}, chars...)
			}
		}
	})
	p.pilot = genOp(NewTape(TapeSpec{Mode: "choice", Seed: mix(seed, "pilot"), Default: "random"}), rec)
	c.T(p.pilot.tkey())
	if p.pilot.Kind != "ok" {
		p.refuse = p.pilot.brief()
		return
	}
	if len(p.pilot.Tape.CharLists) > 0 {
		p.chars = p.pilot.Tape.CharLists[0]
	} else if curOrders.Chars != "native" {
		// a successful generation never passed its alphabet through hook H2: the simulator does not
		// own the index order, nothing can be enumerated (harness trouble, not a verdict)
		panic(sentCannotDrive)
	}
	if g != nil && p.chars != nil {
		pos := map[string]int{}
		for i, ch := range p.chars {
			if _, dup := pos[ch]; !dup {
				pos[ch] = i
			}
		}
		for _, ch := range g {
			i, ok := pos[ch]
			if !ok {
				p.good = nil
				break
			}
			p.good = append(p.good, uint32(i))
		}
	}
	return
}

func init() {
	register(&CheckDef{
		ID: "C02", Level: "exploration",
		Technique:   "deterministic simulation: complete choice-tree sweeps of seeded small recipes on the scripted random tape (hook-visible draw bounds), including levels reached after forced rejected candidates; exact law vs model string set",
		Rule:        "case = one leaf (complete choice path of one Generate call) of a swept configuration; evaluations = leaves executed; distinct_nontrivial = distinct (configuration, level) sweeps completed whose string set has at least 2 members",
		Assumptions: []string{"leaves of a sweep are weighted by prod 1/n_i, i.e. each bounded draw is uniform (C01, checked separately)", "sweeps are exhaustive per small configuration (|alphabet|^length within the leaf budget); configurations, orders and rejected prefixes are a seeded sample"},
		Episodes:    map[string]int{"quick": 1200, "thorough": 16000},
		TwiceEvery:  6,
		Real:        []string{"CharRecipe.Generate/Entropy/buildCharacterList/requireFilter/SuccessProbability", "golang-set", "randomUint32n"},
		Simulated:   []string{"crypto/rand.Reader (choice tape driven through the probe table)", "alphabet index order (H2)"},
		Gen: func(seed uint64, tier string) interface{} {
			r := Sub(seed, "config")
			budget := 1500
			if tier == "thorough" {
				budget = pick(r, []int{1500, 4000, 20000})
			}
			s := &C02Spec{Seed: seed, Budget: budget, Levels: 1 + r.Intn(2), Orders: genOrders(r, seed)}
			o := charOpt{small: true, budget: int64(budget), maxLen: 6, maxReq: 4, noEmptied: r.Chance(0.6)}
			if r.Chance(0.45) {
				o.budget = int64(pick(r, []int{16, 40, 80})) // tiny: deep sweeps through one or two rejected candidates are affordable
			}
			if tier == "thorough" && r.Chance(0.15) {
				// big alphabets with short length
				o.maxLen = 2
				s.Cfg = genCharCfg(r, o)
				s.Cfg.Allow |= pick(r, []uint32{1, 2, 4, 3})
				for modelChar(s.Cfg).SpaceSize().Int64() > int64(budget) && s.Cfg.Length > 1 {
					s.Cfg.Length--
				}
			} else {
				s.Cfg = genCharCfg(r, o)
			}
			if r.Chance(0.2) {
				s.MaxTrials = pick(r, []int{5, 20, 200})
			}
			return s
		},
		Decode: decodeInto[C02Spec],
		Run:    runC02,
		Shrink: func(si interface{}) []interface{} {
			s := si.(*C02Spec)
			var out []interface{}
			for _, cc := range shrinkCharCfg(s.Cfg) {
				n := *s
				n.Cfg = cc
				out = append(out, &n)
			}
			if s.Orders.Chars != "sorted" {
				n := *s
				n.Orders.Chars = "sorted"
				out = append(out, &n)
			}
			if s.Levels > 0 {
				n := *s
				n.Levels--
				out = append(out, &n)
			}
			return out
		},
	})
}

func runC02(c *Ctx, si interface{}) {
	s := si.(*C02Spec)
	curOrders = s.Orders
	withKnobs(s.MaxTrials, 0, func() {
		rec := s.Cfg.Recipe()
		L := s.Cfg.Length
		if sp := modelChar(s.Cfg).SpaceSize(); !sp.IsInt64() || sp.Int64() > int64(s.Budget)*4 {
			c.Count("config_too_large", 1)
			return
		}
		if s.Seed%2 == 0 {
			warmSiblings(c, s.Seed, s.Cfg)
		}
		p := prepareChar(c, s.Cfg, rec, s.Seed)
		if p.refuse != "" {
			c.Count("recipe_refused_or_failed", 1)
			return
		}
		if len(p.S) == 0 {
			// Generate accepted a recipe the model says has no satisfying string: whatever it returned is not allowed
			c.Violate("support", "", "%s: Generate returned %q but no string satisfies the recipe", s.Cfg, p.pilot.Pw.S)
			return
		}
		if p.good == nil {
			c.Violate("support", "alphabet-mismatch", "%s: the alphabet the generator draws from %q lacks characters of the allowed string set (model alphabet %q)", s.Cfg, p.chars, p.m.A)
			return
		}
		// the same stream delivered in 1-3 byte pieces makes the same choices
		if ch := genOp(NewTape(TapeSpec{Mode: "choice", Seed: mix(s.Seed, "pilot"), Default: "random", Chunk: "rand3"}), rec); ch.Kind == "ok" && ch.Pw.S != p.pilot.Pw.S {
			c.Violate("chunking-changes-result", "", "%s: the pilot stream gives %q delivered whole and %s delivered in 1-3 byte pieces", s.Cfg, p.pilot.Pw.S, ch.brief())
			return
		}
		// a stream on which every candidate misses a requirement: no string outside S may come back
		if bad := firstFailingPath(p.m, rec, s.Seed); bad != nil {
			var choices []uint32
			for k := 0; k < spg.MaxTrials+2; k++ {
				choices = append(choices, bad...)
			}
			af := genOp(NewTape(TapeSpec{Mode: "choice", Choices: choices, Default: "zero"}), rec)
			c.T(af.tkey())
			c.Probe("all_candidates_fail_stream", 1)
			if af.Kind == "ok" && !p.S[af.Pw.S] {
				c.Violate("support", "", "%s: on a stream where every candidate misses a requirement Generate returned %q, which the recipe does not allow", s.Cfg, af.Pw.S)
				return
			}
		}
		cont := append(append(append([]uint32{}, p.good...), p.good...), p.good...)
		r := Sub(s.Seed, "levels")
		ll := sweepCharLevel(c, rec, L, nil, cont, s.Budget*4, r, p.S)
		c.Eval(int64(ll.leaves))
		c.Count("leaves", int64(ll.leaves))
		c.Count("sweeps_level0", 1)
		if len(p.S) >= 2 && ll.complete {
			c.Distinct(s.Cfg.String(), s.Orders.Chars, 0)
		}
		if !checkLevel(c, "level 0 (first candidate)", ll, p.S, s.Cfg) {
			return
		}
		if ll.rejected.Sign() > 0 {
			c.Probe("config_with_rejected_first_candidates", 1)
		}
		c.Sample(map[string]interface{}{"recipe": s.Cfg.String(), "char_order": s.Orders.Chars, "leaves_level0": ll.leaves, "allowed_strings": len(p.S), "rejected_mass_level0": ll.rejected.RatString()})
		// Deeper unconditional sweeps: every path of the first 2L (3L) draws. No assumption is made
		// about how many draws a rejected candidate consumes (an implementation may abandon a
		// hopeless candidate early): whatever the retry mechanism, the probability that the call
		// has returned s within D draws must be the same for every allowed s, and zero for any
		// other string. A retry that favours some valid string breaks this at some depth.
		rejLeaves := ll.leaves - len(ll.law)
		for mult := 2; mult <= 1+s.Levels+1 && mult <= 3 && rejLeaves > 0; mult++ {
			est := float64(rejLeaves) * float64(ll.leaves)
			if mult == 3 {
				est *= float64(rejLeaves)
			}
			if est > float64(s.Budget)*8 {
				c.Count(fmt.Sprintf("depth_%dL_sweep_too_large", mult), 1)
				break
			}
			ld := sweepCharLevel(c, rec, mult*L, nil, cont, s.Budget*40, r, p.S)
			c.Eval(int64(ld.leaves))
			c.Count("leaves", int64(ld.leaves))
			c.Count(fmt.Sprintf("sweeps_depth_%dL", mult), 1)
			c.Probe(fmt.Sprintf("swept_to_depth_%dL_through_rejected_candidates", mult), 1)
			if len(p.S) >= 2 && ld.complete {
				c.Distinct(s.Cfg.String(), s.Orders.Chars, mult)
			}
			if !checkLevel(c, fmt.Sprintf("within %d draws (%d x Length, through rejected candidates)", mult*L, mult), ld, p.S, s.Cfg) {
				return
			}
		}
	})
}

func shrinkCharCfg(c CharCfg) []CharCfg {
	var out []CharCfg
	if c.Length > 1 {
		n := c
		n.Length--
		out = append(out, n)
	}
	dropRune := func(s string) []string {
		rs := runes(s)
		var res []string
		for i := range rs {
			res = append(res, strings.Join(append(append([]string{}, rs[:i]...), rs[i+1:]...), ""))
		}
		return res
	}
	for i := range c.RequireSets {
		n := c
		n.RequireSets = append(append([]string{}, c.RequireSets[:i]...), c.RequireSets[i+1:]...)
		out = append(out, n)
	}
	for _, f := range []*uint32{&c.Allow, &c.Require, &c.Exclude} {
		if *f != 0 {
			old := *f
			*f = 0
			out = append(out, c)
			*f = old
			for b := uint32(1); b <= 16; b <<= 1 {
				if old&b != 0 && old != b {
					*f = old &^ b
					out = append(out, c)
					*f = old
				}
			}
		}
	}
	for _, s := range dropRune(c.AllowChars) {
		n := c
		n.AllowChars = s
		out = append(out, n)
	}
	for _, s := range dropRune(c.ExcludeChars) {
		n := c
		n.ExcludeChars = s
		out = append(out, n)
	}
	for i, rs := range c.RequireSets {
		for _, s := range dropRune(rs) {
			n := c
			n.RequireSets = append([]string{}, c.RequireSets...)
			n.RequireSets[i] = s
			out = append(out, n)
		}
	}
	return out
}
