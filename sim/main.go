package main

import (
	"flag"
	"fmt"
	"os"
	"sort"
)

func usage() {
	fmt.Println("usage: simcheck <property> <quick|thorough> | simcheck replay <file> | simcheck list")
}

func main() {
	worker := flag.Int("worker", -1, "worker index (internal)")
	workers := flag.Int("workers", 1, "number of workers (internal)")
	out := flag.String("out", "", "worker result file (internal)")
	flag.Parse()
	args := flag.Args()
	if len(args) < 1 {
		usage()
		os.Exit(2)
	}
	switch args[0] {
	case "list":
		ids := []string{}
		for id := range checks {
			ids = append(ids, id)
		}
		sort.Strings(ids)
		for _, id := range ids {
			fmt.Println(id)
		}
		return
	case "replay":
		if len(args) < 2 {
			usage()
			os.Exit(2)
		}
		os.Exit(replayMain(args[1]))
	case "count-child":
		os.Exit(countChildMain(args[1:]))
	case "count-child-api":
		os.Exit(countChildAPIMain(args[1:]))
	case "race-child":
		os.Exit(raceChildMain(args[1:]))
	}
	def := checks[args[0]]
	if def == nil {
		fmt.Println("unknown property", args[0])
		os.Exit(2)
	}
	tier := "quick"
	if len(args) > 1 {
		tier = args[1]
	} else if t := os.Getenv("VERIF_TIER"); t != "" {
		tier = t
	}
	if tier != "quick" && tier != "thorough" {
		usage()
		os.Exit(2)
	}
	if *worker >= 0 {
		os.Exit(workerMain(def, tier, *worker, *workers, *out))
	}
	os.Exit(parentMain(def, tier))
}
