package main

import (
	"fmt"
	"math"
	"math/big"
	"strings"

	"go.1password.io/spg"
)

// ---------------------------------------------------------------------------
// C13: Generate fails only when the recipe cannot be honoured, with an error.
//  decision : refusal decision vs the exact success probability (model)
//  budget   : scripted streams on which every candidate fails / only the last
//             permitted candidate succeeds; MaxTrials / MaxFailRate randomised
// ---------------------------------------------------------------------------

type C13Spec struct {
	Kind        string    `json:"kind"` // char | wl | budget
	Char        *CharCfg  `json:"char,omitempty"`
	WL          *WLCfg    `json:"wl,omitempty"`
	ZeroValue   bool      `json:"zero_value,omitempty"`
	MaxTrials   int       `json:"max_trials"`
	MaxFailRate float64   `json:"max_fail_rate"`
	Orders      OrderSpec `json:"orders"`
	TapeSeed    uint64    `json:"tape_seed"`
	// HugeAlphabet: a custom alphabet of this many distinct characters (CJK block onwards), Length 2,
	// no requirement: must generate. One such episode per run (the library needs about 12 s of
	// processor time to build a 65536-character alphabet).
	HugeAlphabet int `json:"huge_alphabet,omitempty"`
}

func init() {
	register(&CheckDef{
		ID: "C13", Level: "exploration",
		Technique:   "deterministic simulation: seeded recipes (zero-valued, degenerate, overlapping requirements) with randomised retry knobs; refusal decision compared with the exact success probability; scripted adversarial tapes on which every candidate fails or only the last permitted candidate succeeds",
		Rule:        "case = one Generate / SuccessProbability call with its expected outcome class; distinct by hash of (recipe, knobs, stream kind); non-trivial = the recipe has a requirement, is degenerate (length<=0, empty alphabet, missing list) or the stream is adversarial",
		Assumptions: []string{"recipes whose failure bound (1-p)^MaxTrials is within a factor 1+-1e-3 of MaxFailRate are don't-care (float32 rounding)", "a required set that exclusion has emptied requires nothing (C03: 'each required set that still has a non-excluded member')", "an error after exactly MaxTrials failed candidates on a random stream is legitimate (probability <= MaxFailRate)"},
		Episodes:    map[string]int{"quick": 16000, "thorough": 6000000},
		TwiceEvery:  7,
		Real:        []string{"CharRecipe.Generate/SuccessProbability/hasAcceptableFailRate", "WLRecipe.Generate", "package knobs MaxTrials/MaxFailRate"},
		Simulated:   []string{"crypto/rand.Reader (random and adversarial choice tapes)", "alphabet index order (H2)", "retry knobs (randomised per episode, restored afterwards)"},
		GenI: func(seed uint64, tier string, i int) interface{} {
			if i == 5 {
				n := 65536 // the square of the alphabet size no longer fits in 32 bits
				return &C13Spec{Kind: "huge", HugeAlphabet: n, Orders: OrderSpec{Chars: "sorted", Words: "sorted", Visit: "sorted"}, TapeSeed: mix(seed, "tape"), MaxTrials: 200, MaxFailRate: 1e-9}
			}
			r := Sub(seed, "config")
			s := &C13Spec{Orders: genOrders(r, seed), TapeSeed: mix(seed, "tape"), MaxTrials: 200, MaxFailRate: 1e-9}
			if r.Chance(0.4) {
				s.MaxTrials = pick(r, []int{1, 2, 3, 5, 200, 200, 0, -1, 1000})
				s.MaxFailRate = pick(r, []float64{1e-9, 1e-3, 0.5, 1, 2, 0})
			}
			switch k := r.Intn(10); {
			case k < 5:
				s.Kind = "char"
				cc := genCharCfg(r, charOpt{small: r.Chance(0.6), budget: 100000, maxLen: 10, maxReq: 5})
				if r.Chance(0.08) {
					cc = genLargeCharCfg(r)
					if cc.Length > 64 {
						cc.Length = pick(r, []int{4, 8, 16})
					}
				}
				manyReq, veryLong := 0.006, 0.004
				if tier == "thorough" {
					manyReq, veryLong = 0.00004, 0.0004 // each call costs up to seconds: a few hundred such episodes, not hundreds of thousands
				}
				if r.Chance(veryLong) {
					// very long passwords with a requirement (counts with exponents beyond 2^15)
					cc = CharCfg{Length: pick(r, []int{32767, 32768, 33000, 40000}), Allow: 7, RequireSets: []string{pick(r, []string{"#", "ab", "7"})}}
				}
				if r.Chance(manyReq) {
					cc = genManyReqCfg(r)
				}
				if r.Chance(0.1) {
					cc.Length = pick(r, []int{0, -1, -7})
				}
				if r.Chance(0.05) {
					cc = CharCfg{}
					s.ZeroValue = true
				}
				if r.Chance(0.06) { // empty alphabet
					cc.ExcludeChars += cc.AllowChars
					cc.Exclude |= cc.Allow | cc.Require
					for _, rs := range cc.RequireSets {
						cc.ExcludeChars += rs
					}
				}
				s.Char = &cc
			case k < 7:
				s.Kind = "wl"
				w := genWLCfg(r, wlOpt{list: listOpt{min: 1, max: 6, twins: 0.2, dups: 0.1}, maxLen: 4})
				switch r.Intn(6) {
				case 0:
					w.NilList = true
				case 1:
					w.Words = nil // NewWordList refuses: the recipe ends up without a list
				case 2:
					w.Length = pick(r, []int{0, -1})
				case 3:
					s.ZeroValue = true
				}
				s.WL = &w
			default:
				s.Kind = "budget"
				s.MaxTrials = pick(r, []int{1, 2, 3, 5, 200})
				s.MaxFailRate = pick(r, []float64{0.5, 0.999, 0.999999})
				for {
					cc := genCharCfg(r, charOpt{small: true, budget: 3000, maxLen: 5, maxReq: 3, noEmptied: r.Chance(0.7)})
					m := modelChar(cc)
					if len(m.Req) == 0 || cc.Length < 1 {
						continue
					}
					s.Char = &cc
					break
				}
			}
			return s
		},
		Decode: decodeInto[C13Spec],
		Run:    runC13,
		Shrink: func(si interface{}) []interface{} {
			s := si.(*C13Spec)
			var out []interface{}
			if s.Char != nil {
				for _, cc := range shrinkCharCfg(*s.Char) {
					n := *s
					c2 := cc
					n.Char = &c2
					out = append(out, &n)
				}
			}
			if s.WL != nil {
				for _, w := range shrinkWLCfg(*s.WL) {
					n := *s
					w2 := w
					n.WL = &w2
					out = append(out, &n)
				}
			}
			if s.MaxTrials != 200 || s.MaxFailRate != 1e-9 {
				n := *s
				n.MaxTrials, n.MaxFailRate = 200, 1e-9
				out = append(out, &n)
			}
			return out
		},
	})
}

func ratToFloat(r *big.Rat) float64 {
	f, _ := r.Float64()
	return f
}

func runC13(c *Ctx, si interface{}) {
	s := si.(*C13Spec)
	curOrders = s.Orders
	knobZeroTrials, knobZeroFail = true, true
	defer func() { knobZeroTrials, knobZeroFail = false, false }()
	withKnobs(s.MaxTrials, s.MaxFailRate, func() {
		switch s.Kind {
		case "huge":
			c13Huge(c, s)
		case "char":
			c13Char(c, s)
		case "wl":
			c13WL(c, s)
		case "budget":
			c13Budget(c, s)
		}
	})
}

// candidatesAllFail reconstructs the candidates a generation drew and reports
// whether each of them misses a requirement (so that giving up is legitimate).
func candidatesAllFail(m *MChar, res OpResult, maxTrials int) (bool, int) {
	if len(res.Tape.CharLists) == 0 || m.L < 1 {
		return false, 0
	}
	chars := res.Tape.CharLists[0]
	d := res.Tape.Draws
	if len(d) != maxTrials*m.L {
		return false, len(d) / maxInt(m.L, 1)
	}
	for k := 0; k < maxTrials; k++ {
		cand := make([]string, m.L)
		for i := 0; i < m.L; i++ {
			dr := d[k*m.L+i]
			if dr.Index < 0 || int(dr.Index) >= len(chars) {
				return false, maxTrials
			}
			cand[i] = chars[dr.Index]
		}
		if ok, _ := m.Satisfies(cand); ok {
			return false, maxTrials
		}
	}
	return true, maxTrials
}

func c13Char(c *Ctx, s *C13Spec) {
	cfg := *s.Char
	rec := cfg.Recipe()
	m := modelChar(cfg)
	desc := fmt.Sprintf("%s MaxTrials=%d MaxFailRate=%g", cfg, s.MaxTrials, s.MaxFailRate)
	if s.TapeSeed%2 == 0 {
		warmSiblings(c, s.TapeSeed, cfg)
	}
	res := genOp(NewTape(TapeSpec{Mode: "choice", Seed: s.TapeSeed, Default: "random"}), rec)
	c.Eval(1)
	c.T(res.tkey())
	nontrivial := len(m.Req) > 0 || cfg.Length < 1 || len(m.A) == 0 || m.Emptied > 0
	if nontrivial {
		c.Distinct(desc, "random")
	}
	if res.Kind == "panic" || res.Kind == "runaway" {
		c.Violate("panic", "", "%s: Generate %s", desc, res.brief())
		return
	}
	if res.Kind == "error" && res.Pw != nil {
		c.Violate("password-with-error", "", "%s: Generate returned both a password %q and an error %s", desc, res.Pw.S, res.Err)
		return
	}
	// expected decision
	expect := "ok"
	why := ""
	var p *big.Rat
	switch {
	case cfg.Length < 1:
		expect, why = "error", "non-positive length"
	case len(m.A) == 0:
		expect, why = "error", "empty alphabet"
	default:
		p = m.SuccessProb()
		pf := ratToFloat(p)
		if p.Sign() == 0 {
			expect, why = "error", "no string satisfies the requirements"
		} else {
			expect, why = refusalExpectation(pf, float64(cfg.Length)*math.Log2(float64(len(m.A))), s.MaxTrials, s.MaxFailRate)
			if len(m.Req) == 0 && s.MaxTrials >= 1 && s.MaxFailRate >= 0 {
				// nothing is required: every candidate succeeds, the failure bound is exactly 0
				expect, why = "ok", "no requirement: failure bound exactly 0"
			}
		}
		if m.Emptied > 0 {
			// a required set with no non-excluded member requires nothing (C03: "each required set
			// that still has a non-excluded member"; the package doc: "Exclusion overrides Require"):
			// the decision is the one for the remaining requirements
			c.Probe("exclusion_emptied_a_required_set", 1)
		}
	}
	c.Count("expect_"+expect, 1)
	switch expect {
	case "error":
		if res.Kind == "ok" {
			c.Violate("accepted-unhonourable", "", "%s: Generate returned %q but must refuse (%s)", desc, res.Pw.S, why)
			return
		}
		if len(res.Tape.Draws) > maxInt(s.MaxTrials, 0)*maxInt(cfg.Length, 0) {
			c.Violate("too-many-attempts", "", "%s: %d draws for at most %d attempts", desc, len(res.Tape.Draws), s.MaxTrials)
			return
		}
	case "ok":
		if res.Kind == "error" {
			legit, _ := candidatesAllFail(m, res, s.MaxTrials)
			if !legit && len(res.Tape.Draws) >= s.MaxTrials && len(res.Tape.Draws) != s.MaxTrials*cfg.Length {
				// the code did draw (at least once per permitted attempt) but not Length draws per attempt:
				// candidates cannot be reconstructed from the tape, the give-up cannot be judged
				legit = true
				c.Count("exhaustion_not_reconstructible", 1)
			}
			if legit {
				c.Probe("legitimate_exhaustion_on_random_stream", 1)
			} else {
				key := "refused-honourable"
				if len(m.Req) >= 2 && overlapping(m) {
					key = "refused-honourable-overlapping-required-sets"
				}
				if m.Emptied > 0 {
					key = "refused-honourable-required-set-emptied-by-exclusion"
				}
				c.Violate("refused-honourable", key, "%s: Generate refused (%s) after %d draws although the recipe can be honoured: %s (exact single-attempt success probability %s)", desc, res.Err, len(res.Tape.Draws), why, p.FloatString(6))
				return
			}
		} else {
			if ok, whyNot := checkCharPassword(m, res.Pw); !ok {
				c.Violate("invalid-password", "", "%s returned %q: %s", desc, res.Pw.S, whyNot)
				return
			}
			if len(res.Tape.Draws) > maxInt(s.MaxTrials, 0)*cfg.Length {
				c.Violate("too-many-attempts", "", "%s: %d draws for at most %d attempts of %d", desc, len(res.Tape.Draws), s.MaxTrials, cfg.Length)
				return
			}
		}
	}
	// (b) SuccessProbability
	if p != nil && cfg.Length >= 1 && cfg.Length <= 64 {
		sp := under(NewTape(TapeSpec{Mode: "raw"}), func(r *OpResult) { r.F = float64(rec.SuccessProbability()) })
		c.Eval(1)
		c.T(sp.tkey())
		if sp.Kind != "ok" {
			c.Violate("panic", "success-probability-panic", "%s: SuccessProbability() %s", desc, sp.brief())
			return
		}
		pf := ratToFloat(p)
		if math.IsNaN(sp.F) || math.Abs(sp.F-pf) > 2e-4*pf+1e-7 {
			key := "success-probability"
			if overlapping(m) {
				key = "success-probability-overlapping-required-sets"
			}
			if m.Emptied > 0 {
				key = "success-probability-required-set-emptied-by-exclusion"
			}
			c.Violate("success-probability", key, "%s: SuccessProbability() = %v, the exact fraction of satisfying candidates is %s", desc, sp.F, p.FloatString(8))
			return
		}
		c.Count("success_probability_compared", 1)
	}
	c.Sample(map[string]interface{}{"recipe": desc, "expected": expect, "outcome": res.Kind, "why": why})
}

func overlapping(m *MChar) bool {
	seen := strset{}
	for _, rs := range m.Req {
		for _, ch := range rs {
			if seen[ch] {
				return true
			}
			seen[ch] = true
		}
	}
	return false
}

func c13WL(c *Ctx, s *C13Spec) {
	cfg := *s.WL
	var g interface{}
	desc := "WLRecipe" + cfg.String()
	expect := "ok"
	if s.ZeroValue && s.TapeSeed%2 == 1 {
		// a recipe over a non-nil but empty word list, constructible through the exported type
		g = spg.NewWLRecipe(maxInt(cfg.Length, 1), &spg.WordList{})
		desc = "NewWLRecipe(n, &WordList{}) (empty list value)"
		expect = "error"
		c.Probe("wordlist_recipe_with_empty_list_value", 1)
	} else if s.ZeroValue {
		g = spg.WLRecipe{}
		desc = "WLRecipe{} (zero value)"
		expect = "error"
	} else {
		b := cfg.build()
		g = b.Recipe
		if b.List == nil {
			expect = "error"
			desc += " (no list)"
			c.Probe("wordlist_recipe_without_list", 1)
		}
		if cfg.Length < 1 {
			expect = "error"
		}
	}
	res := genOp(NewTape(TapeSpec{Mode: "choice", Seed: s.TapeSeed, Default: "random"}), g)
	c.Eval(1)
	c.T(res.tkey())
	c.Distinct(desc, expect)
	c.Count("expect_"+expect, 1)
	if res.Kind == "panic" || res.Kind == "runaway" {
		key := "panic"
		if expect == "error" && (cfg.NilList || len(cfg.Words) == 0 || s.ZeroValue) {
			key = "panic-wordlist-recipe-without-list"
		}
		c.Violate("panic", key, "%s: Generate %s", desc, res.brief())
		return
	}
	if res.Kind == "error" && res.Pw != nil {
		c.Violate("password-with-error", "", "%s: Generate returned both a password and an error", desc)
		return
	}
	if expect == "error" && res.Kind == "ok" {
		c.Violate("accepted-unhonourable", "", "%s: Generate returned %q but must refuse", desc, res.Pw.S)
		return
	}
	if expect == "ok" && res.Kind == "error" {
		c.Violate("refused-honourable", "", "%s: Generate refused (%s) although the recipe can be honoured", desc, res.Err)
		return
	}
	c.Sample(map[string]interface{}{"recipe": desc, "expected": expect, "outcome": res.Kind})
}

func c13Budget(c *Ctx, s *C13Spec) {
	cfg := *s.Char
	rec := cfg.Recipe()
	m := modelChar(cfg)
	desc := fmt.Sprintf("%s MaxTrials=%d MaxFailRate=%g", cfg, s.MaxTrials, s.MaxFailRate)
	p := m.SuccessProb()
	if p == nil || p.Sign() == 0 {
		c.Count("budget_unsatisfiable", 1)
		return
	}
	pf := ratToFloat(p)
	if math.Pow(1-pf, float64(s.MaxTrials)) > s.MaxFailRate*(1-1e-3) {
		c.Count("budget_preflight_would_refuse", 1)
		return
	}
	// the real alphabet order from a pilot generation
	pilot := genOp(NewTape(TapeSpec{Mode: "choice", Seed: s.TapeSeed, Default: "random"}), rec)
	c.T(pilot.tkey())
	if pilot.Kind != "ok" || len(pilot.Tape.CharLists) == 0 {
		c.Count("budget_pilot_"+pilot.Kind, 1)
		return
	}
	chars := pilot.Tape.CharLists[0]
	pos := map[string]uint32{}
	for i, ch := range chars {
		pos[ch] = uint32(i)
	}
	var good, bad []uint32
	m.Enumerate(func(cs []string, ok bool) {
		if ok && good == nil || !ok && bad == nil {
			var path []uint32
			for _, ch := range cs {
				i, found := pos[ch]
				if !found {
					return
				}
				path = append(path, i)
			}
			if ok {
				good = path
			} else {
				bad = path
			}
		}
	})
	if good == nil || bad == nil {
		c.Count("budget_no_failing_candidate", 1)
		return
	}
	L := cfg.Length
	rep := func(path []uint32, k int) []uint32 {
		var out []uint32
		for i := 0; i < k; i++ {
			out = append(out, path...)
		}
		return out
	}
	// every candidate misses a requirement
	allFail := genOp(NewTape(TapeSpec{Mode: "choice", Choices: rep(bad, s.MaxTrials+3), Default: "zero"}), rec)
	c.Eval(1)
	c.T(allFail.tkey())
	c.Distinct(desc, "all-fail")
	c.Probe("all_attempts_fail_stream", 1)
	if allFail.Kind == "panic" || allFail.Kind == "runaway" {
		c.Violate("panic", "", "%s on a stream where every candidate misses a requirement: %s", desc, allFail.brief())
		return
	}
	if n := len(allFail.Tape.Draws); n > s.MaxTrials*L {
		c.Violate("too-many-attempts", "", "%s: %d draws (= more than %d candidates) on a stream where every candidate fails; outcome %s", desc, n, s.MaxTrials, allFail.brief())
		return
	}
	if allFail.Kind == "ok" {
		if ok, why := checkCharPassword(m, allFail.Pw); !ok {
			c.Violate("invalid-password", "", "%s: on the all-fail stream Generate returned %q: %s", desc, allFail.Pw.S, why)
			return
		}
	}
	if allFail.Kind == "error" && allFail.Pw != nil {
		c.Violate("password-with-error", "", "%s: an error together with a password", desc)
		return
	}
	// The next scenario needs to know where candidate number MaxTrials starts in the stream. That is
	// only known if every failed attempt above consumed exactly Length draws (an implementation may
	// legitimately abandon a hopeless candidate early, then the stream is not aligned to candidates).
	if !(allFail.Kind == "error" && len(allFail.Tape.Draws) == s.MaxTrials*L) {
		c.Count("budget_stream_not_aligned_to_candidates", 1)
		return
	}
	// candidate number MaxTrials is the first good one
	lastGood := genOp(NewTape(TapeSpec{Mode: "choice", Choices: append(rep(bad, s.MaxTrials-1), good...), Default: "zero"}), rec)
	c.Eval(1)
	c.T(lastGood.tkey())
	c.Distinct(desc, "last-good")
	c.Probe("success_on_last_permitted_attempt_stream", 1)
	wantPw := ""
	for _, i := range good {
		wantPw += chars[i]
	}
	if lastGood.Kind != "ok" || lastGood.Pw.S != wantPw {
		c.Violate("budget-cut-short", "", "%s: candidates 1..%d fail and candidate %d (%q) satisfies the recipe, but Generate gave %s after %d draws", desc, s.MaxTrials-1, s.MaxTrials, wantPw, lastGood.brief(), len(lastGood.Tape.Draws))
		return
	}
	c.Sample(map[string]interface{}{"recipe": desc, "failing_candidate_path": bad, "satisfying_candidate_path": good})
}

// refusalExpectation decides what the pre-flight check must do for an exact single-attempt
// success probability p. The library derives p from the difference of two float32
// entropies of magnitude E, so p is only known to it up to a factor 2^(+-dE) with dE a few
// float32 ulps of E; a decision that flips inside that band (or within 1e-3 of the limit)
// is don't-care. Outside the band the decision is determined.
func refusalExpectation(p, E float64, trials int, limit float64) (string, string) {
	if E < 1 {
		E = 1
	}
	dE := 4 * E * math.Pow(2, -23)
	pHi := math.Min(1, p*math.Exp2(dE))
	pLo := p * math.Exp2(-dE)
	failLo := math.Pow(1-pHi, float64(trials))
	failHi := math.Pow(1-pLo, float64(trials))
	switch {
	case failLo > limit*(1+1e-3):
		return "error", fmt.Sprintf("failure bound (1-%.9g)^%d = %.6g above the limit %g", p, trials, math.Pow(1-p, float64(trials)), limit)
	case failHi < limit*(1-1e-3):
		return "ok", fmt.Sprintf("failure bound %.6g below the limit %g", math.Pow(1-p, float64(trials)), limit)
	}
	return "dontcare", ""
}

// c13Huge: an alphabet with more characters than fit in 16 bits; nothing is required, so Generate
// must return a password of Length characters of the alphabet (products of alphabet sizes overflow
// 32 bits from 65536 characters on).
func c13Huge(c *Ctx, s *C13Spec) {
	var sb strings.Builder
	in := map[string]bool{}
	for i := 0; i < s.HugeAlphabet; i++ {
		ch := string(rune(0x4e00 + i))
		if i >= 0x5200 { // stay clear of the surrogate range
			ch = string(rune(0x10000 + i))
		}
		sb.WriteString(ch)
		in[ch] = true
	}
	rec := spg.CharRecipe{Length: 2, AllowChars: sb.String()}
	res := genOp(NewTape(TapeSpec{Mode: "choice", Seed: s.TapeSeed, Default: "random"}), &rec)
	c.Eval(1)
	c.T(res.Kind)
	c.Distinct("huge-alphabet", s.HugeAlphabet)
	c.Probe("alphabet_of_65536_or_more_characters", 1)
	switch res.Kind {
	case "panic":
		c.Violate("panic", "panic-huge-alphabet", "CharRecipe{Length: 2, AllowChars: %d distinct characters}.Generate panicked: %s", s.HugeAlphabet, res.Panic)
	case "error":
		c.Violate("refused-honourable", "refused-huge-alphabet", "CharRecipe{Length: 2, AllowChars: %d distinct characters} has no requirement and a non-empty alphabet but Generate returned an error: %s", s.HugeAlphabet, res.brief())
	case "ok":
		if len(res.Pw.Tokens) != 2 || !in[res.Pw.Tokens[0].V] || !in[res.Pw.Tokens[1].V] {
			c.Violate("invalid-password", "invalid-huge-alphabet", "CharRecipe{Length: 2, AllowChars: %d distinct characters} returned %q", s.HugeAlphabet, res.Pw.S)
		}
	}
}
