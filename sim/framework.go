package main

import (
	"bufio"
	"encoding/json"
	"fmt"
	"go.1password.io/spg"
	"os"
	"os/exec"
	"path/filepath"
	"runtime"
	"runtime/debug"
	"sort"
	"strconv"
	"strings"
	"sync/atomic"
	"syscall"
	"time"
)

// ---------------------------------------------------------------------------
// Episode framework: every check is (Gen, Run, Shrink) over a JSON-able spec.
// One episode is a pure function of one 64-bit seed.
// ---------------------------------------------------------------------------

type Violation struct {
	Property string          `json:"property"`
	Class    string          `json:"class"`  // violation class (kept fixed while shrinking)
	Key      string          `json:"key"`    // specific finding key, matched against KNOWN_FINDINGS.txt
	Detail   string          `json:"detail"` // expected vs observed
	Seed     uint64          `json:"seed"`
	Replay   string          `json:"replay,omitempty"`
	Spec     json.RawMessage `json:"spec,omitempty"`
	// where the episode sat in its worker (for prefix replays of state carried across episodes)
	Episode  int    `json:"episode"`
	Worker   int    `json:"worker"`
	Workers  int    `json:"workers"`
	BaseSeed uint64 `json:"base_seed"`
}

type Stats struct {
	Episodes       int               `json:"episodes"`
	Evals          int64             `json:"evals"`
	Counters       map[string]int64  `json:"counters"`
	Faults         map[string]int64  `json:"faults"`
	Probes         map[string]int64  `json:"probes"`
	Distinct       []uint64          `json:"distinct"`
	Samples        []json.RawMessage `json:"samples"`
	Violations     []Violation       `json:"violations"`
	Trouble        []string          `json:"trouble"`        // harness-level problems (exit 2)
	TranscriptSum  uint64            `json:"transcript_sum"` // order-independent digest of all episode transcripts
	distinct       map[uint64]struct{}
	apiEscalations []C01Spec
	APIEsc         []C01Spec `json:"api_escalations,omitempty"`
	LongestCallMs  float64   `json:"longest_call_ms"` // longest completed library call (wall clock)
	// processor time the process used while the longest-running call that the watchdog saw in progress
	// (i.e. one lasting over a second) was running; the watchdog fires at opHangLimit of it
	LongestCallCPUMs float64 `json:"longest_call_cpu_ms"`
}

func newStats() *Stats {
	return &Stats{Counters: map[string]int64{}, Faults: map[string]int64{}, Probes: map[string]int64{}, distinct: map[uint64]struct{}{}}
}

// Ctx is what a check's Run sees.
type Ctx struct {
	st         *Stats
	tier       string
	seed       uint64 // episode seed
	property   string
	violations []Violation
	transcript uint64
	quiet      bool // shrinking / second run: do not record stats
	scratch    string
	narrow     []interface{} // smaller specs proposed by the run itself (tried first when minimising)
	vspec      interface{}   // spec attached to violations raised outside an episode (parent-side work)
}

// A library call is a hang when the process has burnt opHangLimit of processor time since the
// watchdog first saw that call in progress (a spinning loop), or when it has been in progress for
// opBlockLimit of wall clock (a call blocked without using the processor). Processor time, not wall
// time, so that a loaded machine cannot turn a slow call into an alarm: the longest call any check
// makes on the unchanged tree - Generate over a 65536-character alphabet, once per C13 run - needs about
// 20 seconds of processor time, every other call under two (evidence: hang_watchdog).
const opHangLimit = 240 * time.Second
const opBlockLimit = 20 * time.Minute

func processCPU() time.Duration {
	var ru syscall.Rusage
	if syscall.Getrusage(syscall.RUSAGE_SELF, &ru) != nil {
		return 0
	}
	return time.Duration(ru.Utime.Nano() + ru.Stime.Nano())
}

func hangWatch(onHang func()) {
	var seen int64
	var cpu0, last time.Duration
	note := func() { // processor time of a call that was seen in progress at least twice and has ended since
		if d := int64(last - cpu0); seen != 0 && d > atomic.LoadInt64(&opClock.longestCPU) {
			atomic.StoreInt64(&opClock.longestCPU, d)
		}
	}
	for {
		time.Sleep(time.Second)
		s := atomic.LoadInt64(&opClock.start)
		if s == 0 {
			note()
			seen = 0
			continue
		}
		if s != seen {
			note()
			seen, cpu0 = s, processCPU()
			last = cpu0
			continue
		}
		last = processCPU()
		if last-cpu0 > opHangLimit || time.Now().UnixNano()-s > int64(opBlockLimit) {
			onHang()
			return
		}
	}
}

func nowS() float64 { return float64(time.Now().UnixNano()) / 1e9 }

// Narrow proposes a smaller spec that should still show the violation just reported.
func (c *Ctx) Narrow(spec interface{}) { c.narrow = append(c.narrow, spec) }

func (c *Ctx) Count(name string, d int64) {
	if !c.quiet {
		c.st.Counters[name] += d
	}
}
func (c *Ctx) Fault(name string, d int64) {
	if !c.quiet {
		c.st.Faults[name] += d
	}
}
func (c *Ctx) Probe(name string, d int64) {
	if !c.quiet {
		c.st.Probes[name] += d
	}
}
func (c *Ctx) Eval(d int64) {
	if !c.quiet {
		c.st.Evals += d
	}
}

// Distinct records the hash of a distinct non-trivial case.
func (c *Ctx) Distinct(parts ...interface{}) {
	if c.quiet {
		return
	}
	h := mix(0x51ed, parts...)
	if len(c.st.distinct) < 400_000 { // capped per worker: distinct_nontrivial is a lower bound in very large runs
		c.st.distinct[h] = struct{}{}
	}
}
func (c *Ctx) Sample(v interface{}) {
	if c.quiet || len(c.st.Samples) >= 4 {
		return
	}
	b, err := json.Marshal(v)
	if err == nil {
		if len(b) > 1500 {
			b, _ = json.Marshal(string(b[:1500]) + "...(truncated)")
		}
		c.st.Samples = append(c.st.Samples, b)
	}
}

// T folds observable results into the episode transcript (twice-run determinism).
func (c *Ctx) T(parts ...interface{}) {
	for _, p := range parts {
		c.transcript = mix(c.transcript, fmt.Sprint(p))
	}
}

func (c *Ctx) Violate(class, key, format string, a ...interface{}) {
	if key == "" {
		key = class
	}
	v := Violation{Property: c.property, Class: class, Key: key, Detail: fmt.Sprintf(format, a...), Seed: c.seed}
	if c.vspec != nil {
		v.Spec, _ = json.Marshal(c.vspec)
	}
	c.violations = append(c.violations, v)
}

func (c *Ctx) Trouble(format string, a ...interface{}) {
	c.st.Trouble = append(c.st.Trouble, fmt.Sprintf(format, a...))
}

type CheckDef struct {
	ID          string
	Level       string
	Technique   string
	Rule        string
	Assumptions []string
	Episodes    map[string]int
	TwiceEvery  int // run every k-th episode twice and compare transcripts (0: never)
	Gen         func(seed uint64, tier string) interface{}
	GenI        func(seed uint64, tier string, i int) interface{} // optional: generation that also sees the episode number
	Run         func(c *Ctx, spec interface{})
	Decode      func(raw []byte) (interface{}, error)
	Shrink      func(spec interface{}) []interface{}
	// ParentExtra runs once in the parent process after the workers (exact
	// counts, race-mode children, ...). It reports into the same Stats.
	ParentExtra func(c *Ctx, tier string, seed uint64)
	Real        []string
	Simulated   []string
}

var checks = map[string]*CheckDef{}

func register(c *CheckDef) { checks[c.ID] = c }

func decodeInto[T any](raw []byte) (interface{}, error) {
	var v T
	if err := json.Unmarshal(raw, &v); err != nil {
		return nil, err
	}
	return &v, nil
}

// runSpec executes one spec and returns violations + transcript.
func runSpecN(def *CheckDef, st *Stats, tier string, seed uint64, spec interface{}, quiet bool, scratch string) (vs []Violation, transcript uint64, trouble string, narrow []interface{}) {
	c := &Ctx{st: st, tier: tier, seed: seed, property: def.ID, quiet: quiet, scratch: scratch}
	func() {
		defer func() {
			if r := recover(); r != nil {
				if s, ok := r.(sentinel); ok {
					trouble = "harness sentinel: " + string(s)
					if s == sentCannotDrive {
						trouble += " (the code read the random source outside an announced bounded draw, or no raw word drives a draw to the wanted index: the simulator cannot enumerate its choices)"
					}
					return
				}
				trouble = fmt.Sprintf("harness panic: %v\n%s", r, stack())
			}
		}()
		def.Run(c, spec)
	}()
	return c.violations, c.transcript, trouble, c.narrow
}

func runSpec(def *CheckDef, st *Stats, tier string, seed uint64, spec interface{}, quiet bool, scratch string) (vs []Violation, transcript uint64, trouble string) {
	vs, transcript, trouble, _ = runSpecN(def, st, tier, seed, spec, quiet, scratch)
	return
}

func stack() string {
	buf := make([]byte, 16384)
	n := runtime.Stack(buf, false)
	return string(buf[:n])
}

func sameClass(vs []Violation, class string) bool {
	for _, v := range vs {
		if v.Class == class {
			return true
		}
	}
	return false
}

// minimise shrinks spec while a violation of the same class persists.
func minimise(def *CheckDef, st *Stats, tier string, seed uint64, spec interface{}, class string, scratch string) interface{} {
	deadline := time.Now().Add(20 * time.Second)
	for round := 0; round < 200 && time.Now().Before(deadline); round++ {
		improved := false
		_, _, _, cands := runSpecN(def, st, tier, seed, spec, true, scratch)
		if len(cands) > 8 {
			cands = cands[:8]
		}
		if def.Shrink != nil {
			cands = append(cands, def.Shrink(spec)...)
		}
		for _, cand := range cands {
			vs, _, trouble := runSpec(def, st, tier, seed, cand, true, scratch)
			if trouble == "" && sameClass(vs, class) {
				spec = cand
				improved = true
				break
			}
			if time.Now().After(deadline) {
				break
			}
		}
		if !improved {
			break
		}
	}
	return spec
}

// prefixSpec replays the episodes a worker executed before (and including) a failing one, for
// violations that depend on state the code under test carried over from earlier episodes in the
// same process (a process-wide cache, say): worker Worker of Workers, base seed BaseSeed, episodes
// From..Episode (step Workers).
type prefixSpec struct {
	Worker   int    `json:"worker"`
	Workers  int    `json:"workers"`
	BaseSeed uint64 `json:"base_seed"`
	From     int    `json:"from"`
	Episode  int    `json:"episode"`
}

type replayFile struct {
	Prefix   *prefixSpec     `json:"prefix,omitempty"`
	Property string          `json:"property"`
	Class    string          `json:"class"`
	Key      string          `json:"key"`
	Seed     uint64          `json:"seed"`
	Tier     string          `json:"tier"`
	Detail   string          `json:"detail"`
	Spec     json.RawMessage `json:"spec"`
}

func verifRoot() string {
	if r := os.Getenv("VERIF_ROOT"); r != "" {
		return r
	}
	return "/verif"
}

// outRoot is where evidence and replay files go: /verif normally, a scratch
// directory when the checks are pointed at an alternative tree (sensitivity runs),
// so that evidence committed under /verif always comes from /repo itself.
func outRoot() string {
	if r := os.Getenv("VERIF_OUTDIR"); r != "" {
		return r
	}
	return verifRoot()
}

func writeReplay(v *Violation, tier string, spec interface{}) {
	raw, _ := json.Marshal(spec)
	v.Spec = raw
	rf := replayFile{Property: v.Property, Class: v.Class, Key: v.Key, Seed: v.Seed, Tier: tier, Detail: v.Detail, Spec: raw}
	b, _ := json.MarshalIndent(rf, "", " ")
	dir := filepath.Join(outRoot(), "replays")
	os.MkdirAll(dir, 0755)
	name := fmt.Sprintf("%s-%d-%x.json", v.Property, v.Seed, fnv64(string(raw)+v.Class)&0xffffff)
	path := filepath.Join(dir, name)
	if err := os.WriteFile(path, b, 0644); err == nil {
		v.Replay = path
	}
}

// ---------------------------------------------------------------------------
// Known findings
// ---------------------------------------------------------------------------

type knownFinding struct {
	Property, Key, Text string
}

func loadKnown() []knownFinding {
	var out []knownFinding
	f, err := os.Open(filepath.Join(verifRoot(), "KNOWN_FINDINGS.txt"))
	if err != nil {
		return nil
	}
	defer f.Close()
	sc := bufio.NewScanner(f)
	for sc.Scan() {
		line := strings.TrimSpace(sc.Text())
		if !strings.HasPrefix(line, "known:") {
			continue
		}
		k := knownFinding{Text: strings.TrimSpace(strings.TrimPrefix(line, "known:"))}
		for _, f := range strings.Fields(line) {
			if strings.HasPrefix(f, "property=") {
				k.Property = strings.TrimPrefix(f, "property=")
			}
			if strings.HasPrefix(f, "key=") {
				k.Key = strings.TrimPrefix(f, "key=")
			}
		}
		if k.Property != "" && k.Key != "" {
			out = append(out, k)
		}
	}
	return out
}

// ---------------------------------------------------------------------------
// Worker and parent
// ---------------------------------------------------------------------------

func tierSeed(tier string) uint64 {
	if s := os.Getenv("VERIF_SEED"); s != "" {
		if v, err := strconv.ParseUint(s, 10, 64); err == nil {
			return v
		}
		if v, err := strconv.ParseInt(s, 10, 64); err == nil {
			return uint64(v)
		}
	}
	if tier == "thorough" {
		return 20260926
	}
	return 1
}

func workerMain(def *CheckDef, tier string, w, W int, out string) int {
	scratch := os.Getenv("VERIF_SCRATCH")
	if scratch == "" {
		scratch = os.TempDir()
	}
	if err := startCapture(scratch); err != nil {
		fmt.Fprintln(os.Stderr, "capture:", err)
		return 2
	}
	installSimulator()
	installOrderHooks()
	if cf, err := os.Create(out + ".crash"); err == nil {
		debug.SetCrashOutput(cf, debug.CrashOptions{}) // fd 2 is captured: keep a copy of a fatal crash report
	}
	defer func() {
		if r := recover(); r != nil {
			diag("worker %d: harness panic outside an episode: %v\n%s", w, r, stack())
			os.Exit(2)
		}
	}()
	// watchdog: a library call that does not return within opHangLimit is a hang (a draw that spins
	// without reading the source cannot be stopped from inside the process): report it for the episode
	// in progress, keep what was found so far, and leave
	var curEpisode struct {
		i    int
		seed uint64
		spec interface{}
	}
	go hangWatch(func() {
		raw, _ := json.Marshal(curEpisode.spec)
		wst := newStats()
		wst.Episodes = curEpisode.i/W + 1
		wst.Violations = []Violation{{Property: def.ID, Class: "hang", Key: "hang", Detail: fmt.Sprintf("a library call did not return after %v of processor time (episode %d); the call neither finished nor read the random source without end", opHangLimit, curEpisode.i), Seed: curEpisode.seed, Spec: raw, Episode: curEpisode.i, Worker: w, Workers: W, BaseSeed: tierSeed(tier)}}
		if b, err := json.Marshal(wst); err == nil {
			os.WriteFile(out+".hang", b, 0644)
		}
		os.Exit(4)
	})
	flush := func(st *Stats) {
		st.Distinct = st.Distinct[:0]
		for h := range st.distinct {
			st.Distinct = append(st.Distinct, h)
		}
		st.APIEsc = st.apiEscalations
		st.LongestCallMs = float64(atomic.LoadInt64(&opClock.longest)) / 1e6
		st.LongestCallCPUMs = float64(atomic.LoadInt64(&opClock.longestCPU)) / 1e6
		if b, err := json.Marshal(st); err == nil {
			os.WriteFile(out, b, 0644)
		}
	}
	seed := tierSeed(tier)
	st := newStats()
	n := def.Episodes[tier]
	if tr := canaryTrouble(def); tr != "" {
		st.Trouble = append(st.Trouble, tr)
		n = 0
	}
	maxViol := 3
	for i := w; i < n; i += W {
		eseed := mix(seed, def.ID, i)
		var spec interface{}
		if def.GenI != nil {
			spec = def.GenI(eseed, tier, i)
		} else {
			spec = def.Gen(eseed, tier)
		}
		curEpisode.i, curEpisode.seed, curEpisode.spec = i, eseed, spec
		vs, tr1, trouble := runSpec(def, st, tier, eseed, spec, false, scratch)
		st.Episodes++
		st.TranscriptSum += mix(uint64(i)+1, tr1)
		if trouble != "" {
			st.Trouble = append(st.Trouble, fmt.Sprintf("episode %d seed %d: %s", i, eseed, trouble))
			if len(st.Trouble) > 3 {
				break
			}
			continue
		}
		if def.TwiceEvery > 0 && i%def.TwiceEvery == 0 && len(vs) == 0 {
			_, tr2, trouble2 := runSpec(def, st, tier, eseed, spec, true, scratch)
			st.Counters["episodes_run_twice"]++
			if trouble2 == "" && tr1 != tr2 {
				// not a violation by itself (index-order nondeterminism is harmless to users); it makes the
				// run inconclusive (exit 2) unless some episode shows a real violation
				st.Counters["episodes_differing_between_two_executions"]++
				if st.Counters["episodes_differing_between_two_executions"] <= 2 {
					st.Trouble = append(st.Trouble, fmt.Sprintf("episode %d seed %d: two executions of the same episode differ (transcripts %x vs %x): a source of nondeterminism or carried-over state the simulator does not own; cannot decide", i, eseed, tr1, tr2))
				}
			}
		}
		seenKeys := map[string]bool{}
		for _, v := range vs {
			if seenKeys[v.Key] {
				continue
			}
			seenKeys[v.Key] = true
			already := 0
			for _, o := range st.Violations {
				if o.Key == v.Key {
					already++
				}
			}
			if already >= 1 {
				continue // one (minimised) representative per key per worker
			}
			min := minimise(def, st, tier, eseed, spec, v.Class, scratch)
			// re-run the minimised spec to get its own detail
			mvs, _, _ := runSpec(def, st, tier, eseed, min, true, scratch)
			vv := v
			for _, m := range mvs {
				if m.Class == v.Class {
					vv = m
					break
				}
			}
			raw, _ := json.Marshal(min)
			vv.Spec = raw
			vv.Episode, vv.Worker, vv.Workers, vv.BaseSeed = i, w, W, seed
			st.Violations = append(st.Violations, vv)
			flush(st) // keep what was found even if the code under test later kills the process
		}
		if len(st.Violations) >= maxViol*4 {
			break
		}
	}
	for h := range st.distinct {
		st.Distinct = append(st.Distinct, h)
	}
	if len(st.apiEscalations) > 4 {
		st.apiEscalations = st.apiEscalations[:4]
	}
	st.APIEsc = st.apiEscalations
	st.LongestCallMs = float64(atomic.LoadInt64(&opClock.longest)) / 1e6
	st.LongestCallCPUMs = float64(atomic.LoadInt64(&opClock.longestCPU)) / 1e6
	st.Counters["probe_calls"] += int64(probeCalls)
	b, _ := json.Marshal(st)
	if err := os.WriteFile(out, b, 0644); err != nil {
		diag("worker: %v", err)
		return 2
	}
	return 0
}

func parentMain(def *CheckDef, tier string) int {
	start := time.Now()
	seed := tierSeed(tier)
	fmt.Printf("simcheck %s tier=%s VERIF_SEED=%d\n", def.ID, tier, seed)
	scratch := os.Getenv("VERIF_SCRATCH")
	if scratch == "" {
		d, err := os.MkdirTemp("", "verif-run-")
		if err != nil {
			fmt.Println("scratch:", err)
			return 2
		}
		defer os.RemoveAll(d)
		scratch = d
		os.Setenv("VERIF_SCRATCH", d)
	}
	W := runtime.NumCPU()
	if W > 16 {
		W = 16
	}
	if v := os.Getenv("VERIF_WORKERS"); v != "" {
		if n, err := strconv.Atoi(v); err == nil && n > 0 {
			W = n
		}
	}
	n := def.Episodes[tier]
	if n < W {
		W = n
	}
	if W < 1 {
		W = 1
	}
	exe, _ := os.Executable()
	type res struct {
		w    int
		err  error
		outp string
	}
	ch := make(chan res, W)
	limit := 40 * time.Minute
	if tier == "thorough" {
		limit = 5 * time.Hour
	}
	var procs []*exec.Cmd
	for w := 0; w < W && n > 0; w++ {
		out := filepath.Join(scratch, fmt.Sprintf("worker-%s-%d.json", def.ID, w))
		cmd := exec.Command(exe, "-worker", strconv.Itoa(w), "-workers", strconv.Itoa(W), "-out", out, def.ID, tier)
		gmp := "2"
		if v := os.Getenv("VERIF_GOMAXPROCS"); v != "" {
			gmp = v
		}
		cmd.Env = append(os.Environ(), "GOMAXPROCS="+gmp)
		var sb strings.Builder
		cmd.Stdout = &sb
		cmd.Stderr = &sb
		procs = append(procs, cmd)
		go func(w int, cmd *exec.Cmd, sb *strings.Builder) {
			err := cmd.Run()
			ch <- res{w, err, sb.String()}
		}(w, cmd, &sb)
	}
	total := newStats()
	trouble := false
	timer := time.After(limit)
	for k := 0; k < len(procs); k++ {
		select {
		case r := <-ch:
			if r.err != nil {
				fmt.Printf("worker %d failed: %v\n%s\n", r.w, r.err, tail(r.outp, 4000))
				wf := filepath.Join(scratch, fmt.Sprintf("worker-%s-%d.json", def.ID, r.w))
				if cb, err := os.ReadFile(wf + ".crash"); err == nil && len(cb) > 0 {
					fmt.Printf("worker %d crash report (the code under test killed the process):\n%s\n", r.w, tail(string(cb), 1500))
				}
				trouble = true
				if hb, err := os.ReadFile(wf + ".hang"); err == nil {
					var hst Stats
					if json.Unmarshal(hb, &hst) == nil {
						total.Violations = append(total.Violations, hst.Violations...)
					}
				}
				// keep whatever the worker had found before it died
				if b, err := os.ReadFile(wf); err == nil {
					var st Stats
					if json.Unmarshal(b, &st) == nil {
						mergeStats(total, &st)
					}
				}
				continue
			}
			if strings.TrimSpace(r.outp) != "" {
				fmt.Printf("worker %d: %s\n", r.w, tail(r.outp, 2000))
			}
			b, err := os.ReadFile(filepath.Join(scratch, fmt.Sprintf("worker-%s-%d.json", def.ID, r.w)))
			if err != nil {
				fmt.Println("worker result missing:", err)
				trouble = true
				continue
			}
			var st Stats
			if err := json.Unmarshal(b, &st); err != nil {
				fmt.Println("worker result unreadable:", err)
				trouble = true
				continue
			}
			mergeStats(total, &st)
		case <-timer:
			fmt.Println("watchdog: wall-clock limit reached, killing workers")
			for _, p := range procs {
				if p.Process != nil {
					p.Process.Kill()
				}
			}
			return 2
		}
	}
	parentCanary := ""
	if def.ParentExtra != nil {
		installOnce()
		installOrderHooks()
		parentCanary = canaryTrouble(def)
		if parentCanary != "" {
			total.Trouble = append(total.Trouble, parentCanary)
		}
	}
	if def.ParentExtra != nil && parentCanary == "" {
		c := &Ctx{st: total, tier: tier, seed: seed, property: def.ID, scratch: scratch}
		func() {
			defer func() {
				if r := recover(); r != nil {
					total.Trouble = append(total.Trouble, fmt.Sprintf("parent extra panic: %v\n%s", r, stack()))
				}
			}()
			def.ParentExtra(c, tier, seed)
		}()
		total.Violations = append(total.Violations, c.violations...)
	}
	seenTrouble := map[string]bool{}
	for _, t := range total.Trouble {
		if !seenTrouble[t] {
			fmt.Println("TROUBLE:", t)
			seenTrouble[t] = true
		}
		trouble = true
	}
	// classify violations
	known := loadKnown()
	exit := 0
	printedKnown := map[string]bool{}
	printedViol := map[string]bool{}
	nviol := 0
	sort.SliceStable(total.Violations, func(i, j int) bool { return total.Violations[i].Key < total.Violations[j].Key })
	for i := range total.Violations {
		v := &total.Violations[i]
		isKnown := false
		for _, k := range known {
			if k.Property == v.Property && k.Key == v.Key {
				isKnown = true
				if !printedKnown[k.Key] {
					printedKnown[k.Key] = true
					fmt.Printf("KNOWN-FINDING: %s\n", k.Text)
				}
			}
		}
		if isKnown {
			total.Counters["known_finding_hits"]++
			continue
		}
		nviol++
		if printedViol[v.Key] {
			continue
		}
		printedViol[v.Key] = true
		var spec interface{}
		if v.Spec != nil && def.Decode != nil {
			spec, _ = def.Decode(v.Spec)
		}
		if spec == nil {
			spec = json.RawMessage(v.Spec)
		}
		writeReplay(v, tier, spec)
		// confirm in a fresh process that the replay file reproduces
		if def.Decode != nil && v.Replay != "" && v.Spec != nil {
			cmd := exec.Command(exe, "replay", v.Replay)
			cmd.Env = append(os.Environ(), "VERIF_REPLAY_QUIET=1")
			outp, err := cmd.CombinedOutput()
			code := 0
			if ee, ok := err.(*exec.ExitError); ok {
				code = ee.ExitCode()
			} else if err != nil {
				code = 2
			}
			if code != 1 && v.Workers > 0 {
				// the violation may depend on state carried over from earlier episodes of its worker
				// process: replay the worker's episodes up to the failing one, shortest suffix first
				ok := false
				for back := 1; ; back *= 4 {
					from := v.Episode - back*v.Workers
					if from < v.Worker {
						from = v.Worker
					}
					px := &prefixSpec{v.Worker, v.Workers, v.BaseSeed, from, v.Episode}
					rf := replayFile{Prefix: px, Property: v.Property, Class: v.Class, Key: v.Key, Seed: v.Seed, Tier: tier, Detail: v.Detail}
					b, _ := json.MarshalIndent(rf, "", " ")
					os.WriteFile(v.Replay, b, 0644)
					cmd := exec.Command(exe, "replay", v.Replay)
					outp, err = cmd.CombinedOutput()
					code = 0
					if ee, ok2 := err.(*exec.ExitError); ok2 {
						code = ee.ExitCode()
					}
					if code == 1 {
						ok = true
						fmt.Printf("note: the violation needs state carried over from earlier episodes in the same process; replay file re-runs episodes %d..%d (step %d) of worker %d\n", from, v.Episode, v.Workers, v.Worker)
						break
					}
					if from == v.Worker {
						break
					}
				}
				if !ok {
					code = 2
				}
			}
			if code != 1 {
				fmt.Printf("TROUBLE: replay of %s in a fresh process did not reproduce (exit %d):\n%s\n", v.Replay, code, tail(string(outp), 2000))
				trouble = true
				continue
			}
		}
		fmt.Printf("violation class=%s key=%s seed=%d: %s\n", v.Class, v.Key, v.Seed, v.Detail)
		fmt.Printf("VIOLATION property=%s replay=%s\n", v.Property, v.Replay)
		exit = 1
	}
	wall := time.Since(start).Seconds()
	if err := writeEvidence(def, tier, seed, total, wall, nviol); err != nil {
		fmt.Println("evidence:", err)
		trouble = true
	}
	fmt.Printf("%s %s: episodes=%d evaluations=%d distinct=%d violations=%d known=%d transcript=%016x wall=%.1fs\n", def.ID, tier, total.Episodes, total.Evals, len(total.distinct), nviol, total.Counters["known_finding_hits"], total.TranscriptSum, wall)
	if exit == 1 {
		return 1
	}
	if trouble {
		return 2
	}
	return 0
}

func tail(s string, n int) string {
	if len(s) > n {
		return "..." + s[len(s)-n:]
	}
	return s
}

func mergeStats(t, s *Stats) {
	t.Episodes += s.Episodes
	t.TranscriptSum += s.TranscriptSum
	t.Evals += s.Evals
	for k, v := range s.Counters {
		t.Counters[k] += v
	}
	for k, v := range s.Faults {
		t.Faults[k] += v
	}
	for k, v := range s.Probes {
		t.Probes[k] += v
	}
	for _, h := range s.Distinct {
		t.distinct[h] = struct{}{}
	}
	for _, x := range s.Samples {
		if len(t.Samples) < 6 {
			t.Samples = append(t.Samples, x)
		}
	}
	t.Violations = append(t.Violations, s.Violations...)
	t.apiEscalations = append(t.apiEscalations, s.APIEsc...)
	t.Trouble = append(t.Trouble, s.Trouble...)
	if s.LongestCallMs > t.LongestCallMs {
		t.LongestCallMs = s.LongestCallMs
	}
	if s.LongestCallCPUMs > t.LongestCallCPUMs {
		t.LongestCallCPUMs = s.LongestCallCPUMs
	}
}

func writeEvidence(def *CheckDef, tier string, seed uint64, st *Stats, wall float64, nviol int) error {
	samples := []interface{}{}
	for _, s := range st.Samples {
		var v interface{}
		json.Unmarshal(s, &v)
		samples = append(samples, v)
	}
	perHour := 0.0
	if wall > 0 {
		perHour = float64(st.Episodes) / wall * 3600
	}
	cov := map[string]interface{}{
		"evaluations":             st.Evals,
		"distinct_nontrivial":     len(st.distinct),
		"rule":                    def.Rule,
		"samples":                 samples,
		"simulated_runs":          st.Episodes,
		"simulated_runs_per_hour": perHour,
		"simulated_time":          "not applicable: spg has no clock, timer or deadline; progress is counted in steps (see step_counters)",
		"step_counters":           st.Counters,
		"faults_fired":            st.Faults,
		"rare_condition_probes":   st.Probes,
		"components_real":         def.Real,
		"components_simulated":    def.Simulated,
		"exhaustive":              false,
		"transcript_digest":       fmt.Sprintf("%016x", st.TranscriptSum),
		"hang_watchdog":           fmt.Sprintf("longest completed library call %.1f ms of wall clock; most processor time used during a call lasting over a second: %.1f ms; a call still running after %v of processor time (or %v of wall clock) is reported as class hang", st.LongestCallMs, st.LongestCallCPUMs, opHangLimit, opBlockLimit),
	}
	ev := map[string]interface{}{
		"property_id": def.ID,
		"tier":        tier,
		"seed":        int64(seed & 0x7fffffffffffffff),
		"level":       def.Level,
		"coverage":    cov,
		"assumptions": def.Assumptions,
		"wall_s":      wall,
		"violations":  nviol,
	}
	b, err := json.MarshalIndent(ev, "", " ")
	if err != nil {
		return err
	}
	dir := filepath.Join(outRoot(), "evidence")
	os.MkdirAll(dir, 0755)
	return os.WriteFile(filepath.Join(dir, def.ID+".json"), b, 0644)
}

func replayMain(path string) int {
	b, err := os.ReadFile(path)
	if err != nil {
		fmt.Println(err)
		return 2
	}
	var rf replayFile
	if err := json.Unmarshal(b, &rf); err != nil {
		fmt.Println(err)
		return 2
	}
	def := checks[rf.Property]
	if def == nil || def.Decode == nil {
		fmt.Println("unknown property in replay file:", rf.Property)
		return 2
	}
	var spec interface{}
	if rf.Prefix == nil {
		spec, err = def.Decode(rf.Spec)
		if err != nil {
			fmt.Println("cannot decode spec:", err)
			return 2
		}
	}
	scratch := os.Getenv("VERIF_SCRATCH")
	if scratch == "" {
		d, _ := os.MkdirTemp("", "verif-replay-")
		defer os.RemoveAll(d)
		scratch = d
		os.Setenv("VERIF_SCRATCH", d)
	}
	if err := startCapture(scratch); err != nil {
		fmt.Fprintln(os.Stderr, "capture:", err)
		return 2
	}
	installSimulator()
	installOrderHooks()
	go hangWatch(func() {
		fmt.Fprintf(capt.realOut, "replay: property=%s class=hang key=hang: a library call did not return after %v of processor time\n", rf.Property, opHangLimit)
		if rf.Class == "hang" {
			fmt.Fprintf(capt.realOut, "VIOLATION property=%s replay=%s\n", rf.Property, path)
			os.Exit(1)
		}
		os.Exit(2)
	})
	st := newStats()
	var vs []Violation
	trouble := canaryTrouble(def)
	if trouble != "" {
		fmt.Fprintln(capt.realOut, "TROUBLE:", trouble)
		return 2
	}
	if rf.Prefix != nil {
		px := rf.Prefix
		for i := px.From; i <= px.Episode; i += px.Workers {
			eseed := mix(px.BaseSeed, def.ID, i)
			var sp interface{}
			if def.GenI != nil {
				sp = def.GenI(eseed, rf.Tier, i)
			} else {
				sp = def.Gen(eseed, rf.Tier)
			}
			evs, _, tr := runSpec(def, st, rf.Tier, eseed, sp, false, scratch)
			if def.TwiceEvery > 0 && i%def.TwiceEvery == 0 && len(evs) == 0 && tr == "" {
				runSpec(def, st, rf.Tier, eseed, sp, true, scratch) // the worker ran this episode twice as well
			}
			if i == px.Episode {
				vs, trouble = evs, tr
			}
		}
	} else {
		vs, _, trouble = runSpec(def, st, rf.Tier, rf.Seed, spec, false, scratch)
	}
	out := capt.realOut
	if trouble != "" {
		fmt.Fprintln(out, "TROUBLE:", trouble)
		return 2
	}
	hit := false
	for _, v := range vs {
		fmt.Fprintf(out, "replay: property=%s class=%s key=%s: %s\n", v.Property, v.Class, v.Key, v.Detail)
		if v.Class == rf.Class {
			hit = true
		}
	}
	if hit {
		fmt.Fprintf(out, "VIOLATION property=%s replay=%s\n", rf.Property, path)
		return 1
	}
	fmt.Fprintln(out, "replay: no violation of the recorded class reproduced")
	return 0
}

// hookCanary checks that the instrumentation hooks are actually reached by the code under test: a
// two-character generation must announce its draws (H1) and pass its alphabet through the order
// hook (H2); a word-list construction must pass its words through the order hook (H3) and ask for a
// visit order (H4). A change that drops a hook call leaves the properties intact but blinds the
// simulator; the checks then cannot decide anything and say so (exit 2) instead of judging
// results they do not control.
func hookCanary() []string {
	var missing []string
	saved := curOrders
	defer func() { curOrders = saved }()
	curOrders = OrderSpec{Chars: "sorted", Words: "sorted", Visit: "sorted"}
	rec := spg.CharRecipe{Length: 2, AllowChars: "ab"}
	t := NewTape(TapeSpec{Mode: "choice", Choices: []uint32{1, 0}, Default: "zero"})
	res := genOp(t, &rec)
	if res.Kind == "ok" {
		if len(t.Draws) == 0 {
			missing = append(missing, "H1 verifNoteDraw (bounded draws are not announced)")
		}
		if len(t.CharLists) == 0 {
			missing = append(missing, "H2 verifOrderChars (the alphabet Generate draws from is not passed through the order hook)")
		}
	}
	wBefore, vBefore := hookCalls.words, visitStats.constructions
	m := mark()
	wl, err := spg.NewWordList([]string{"b", "a", "A"})
	_ = since(m)
	if err == nil && wl != nil {
		if hookCalls.words == wBefore {
			missing = append(missing, "H3 verifOrderWords (the word slice of NewWordList is not passed through the order hook)")
		}
		if visitStats.constructions == vBefore {
			missing = append(missing, "H4 verifVisitBegin (the twin-removal pass of NewWordList does not ask for a visit order)")
		}
	}
	visitStats.twinBeforeLower, visitStats.twinAfterLower = 0, 0
	return missing
}

func canaryTrouble(def *CheckDef) string {
	if def.ID == "C12" {
		return "" // Tokenize is driven directly, no hook involved
	}
	if miss := hookCanary(); len(miss) > 0 {
		return "instrumentation hooks not reached by the code under test: " + strings.Join(miss, "; ") + " - the simulator does not own the draws / orders; cannot decide (this is not a verdict on the property)"
	}
	return ""
}
