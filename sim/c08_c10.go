package main

import (
	"fmt"
	"math"
	"sort"
	"strings"

	"go.1password.io/spg"
)

// ---------------------------------------------------------------------------
// C08 (wordlist entropy exact and a function of the recipe alone) and C10
// (word-list normalisation). One episode = one input multiset, constructed
// many times from permuted / duplicated copies under simulator-chosen map
// visit orders (H4) and index orders (H3), plus native-order constructions as
// a backstop for map iterations the hooks do not own.
// ---------------------------------------------------------------------------

type C08Spec struct {
	Words         []string `json:"words"`
	Constructions int      `json:"constructions"`
	Native        int      `json:"native"`
	Seed          uint64   `json:"seed"`
	Length        int      `json:"length"`
	Seps          []SepCfg `json:"seps"`
}

var visitModes = []string{"sorted", "reverse", "perm", "twinfirst", "twinlast", "perm", "perm"}

// variantInput returns a permuted copy of words with some entries repeated.
func variantInput(r *Rng, words []string, k int) []string {
	out := append([]string{}, words...)
	if k > 0 {
		nd := r.Intn(3)
		for i := 0; i < nd && len(words) > 0; i++ {
			out = append(out, pick(r, words))
		}
		p := r.Perm(len(out))
		sh := make([]string, len(out))
		for i, j := range p {
			sh[i] = out[j]
		}
		out = sh
	}
	return out
}

func genTwinnyWords(r *Rng) []string {
	return genWords(r, listOpt{min: 1, max: 9, twins: 0.45, precap: 0.15, caseless: 0.12, dups: 0.2, forceAllCap: r.Chance(0.5)})
}

func init() {
	register(&CheckDef{
		ID: "C08", Level: "exploration",
		Technique:   "deterministic simulation of map-iteration order and construction history: repeated NewWordList constructions from permuted/duplicated inputs under simulator-chosen visit orders (hook H4) and native orders, Entropy() compared with the statement's formula and bit-for-bit across constructions",
		Rule:        "case = one Entropy() call on one construction of one input under one visit order, scheme and separator; distinct by hash of (input multiset, visit order, scheme, separator); non-trivial = the list contains a word together with its title-cased twin or a word that title-casing does not change",
		Assumptions: []string{"title-casing is strings.Title", "separator entropy is what the separator function reports; for presets and recipe separators this is log2 of the number of strings the recipe allows", "float32 tolerance max(1e-4, 4 ulp) against the formula; bit-identity across constructions of the same input"},
		Episodes:    map[string]int{"quick": 4000, "thorough": 120000},
		TwiceEvery:  0,
		Real:        []string{"NewWordList (real map and real twin-removal loop body)", "WLRecipe.Entropy", "separator presets / NewSFFunction"},
		Simulated:   []string{"map visit order in NewWordList (H4)", "word index order (H3)", "order and multiplicity of the caller's input", "crypto/rand.Reader (tape for separator generations inside Entropy)"},
		Gen: func(seed uint64, tier string) interface{} {
			r := Sub(seed, "config")
			s := &C08Spec{Words: genTwinnyWords(r), Constructions: 8 + r.Intn(10), Native: 12, Seed: seed, Length: 1 + r.Intn(5)}
			if r.Chance(0.12) {
				s.Length = pick(r, []int{33, 64, 72, 73, 100, 237, 300, 647, 700, 1000})
			}
			if tier == "thorough" {
				s.Constructions = 16 + r.Intn(48)
				s.Native = 48
			}
			s.Seps = []SepCfg{{Kind: "char", Char: pick(r, []string{"", "-", "é"})}, {Kind: "preset", Preset: pick(r, presetNames)}}
			if r.Chance(0.4) {
				// a hand-written separator function that can return "" while reporting positive entropy
				s.Seps = append(s.Seps, SepCfg{Kind: "draw", Vals: []string{"", pick(r, asciiPool[:14]), "::"}})
			}
			if r.Chance(0.02) {
				// a long list (several thousand shipped words) with a few entries that title-casing does not change
				n := 4096 + r.Intn(3000)
				s.Words = append(append([]string{}, spg.AgileWords[:n]...), pick(r, []string{"Zed", "4", "Ångström"}))
				if r.Bool() {
					s.Words = append(s.Words, "NASA")
				}
				s.Constructions, s.Native = 2, 6
				s.Seps = s.Seps[:1]
				if r.Bool() {
					s.Length = pick(r, []int{72, 73, 74, 100, 200})
				}
			}
			if r.Chance(0.003) {
				s.Words = hugeList() // more than 2^16 words
				s.Constructions, s.Native = 1, 1
				s.Seps = s.Seps[:1]
				s.Length = 1 + r.Intn(4)
			}
			if r.Chance(0.5) {
				cc := genCharCfg(r, charOpt{small: true, budget: 40, maxLen: 2, maxReq: 1, noEmptied: r.Chance(0.7)})
				if modelChar(cc).Count().Sign() > 0 && len(modelChar(cc).Req) == 0 {
					s.Seps = append(s.Seps, SepCfg{Kind: "recipe", Recipe: &cc})
				}
			}
			return s
		},
		Decode: decodeInto[C08Spec],
		Run:    runC08,
		Shrink: func(si interface{}) []interface{} {
			s := si.(*C08Spec)
			var out []interface{}
			for i := range s.Words {
				if len(s.Words) > 1 {
					n := *s
					n.Words = append(append([]string{}, s.Words[:i]...), s.Words[i+1:]...)
					out = append(out, &n)
				}
			}
			if s.Length > 2 {
				n := *s
				n.Length = 2
				out = append(out, &n)
			}
			if len(s.Seps) > 1 {
				for i := range s.Seps {
					n := *s
					n.Seps = []SepCfg{s.Seps[i]}
					out = append(out, &n)
				}
			}
			if s.Constructions > 6 {
				n := *s
				n.Constructions = 6
				out = append(out, &n)
			}
			return out
		},
	})
	register(&CheckDef{
		ID: "C10", Level: "exploration",
		Technique:   "deterministic simulation of map-iteration order and construction history: repeated NewWordList constructions from permuted/duplicated inputs under simulator-chosen visit and index orders; the kept set is read out through the public API by forcing every index on the scripted tape and compared with the reference normalisation",
		Rule:        "case = one construction (input order and multiplicity, visit order, index order) whose size and complete kept set are compared with the model; distinct by hash of (input sequence, visit order); non-trivial = the input has a duplicate, a title-cased twin, or a word title-casing does not change",
		Assumptions: []string{"title-casing is strings.Title", "the kept set is read out by generating one-word passwords for every index (scripted tape) and cross-checked with the verif-tagged accessor"},
		Episodes:    map[string]int{"quick": 8000, "thorough": 640000},
		TwiceEvery:  0,
		Real:        []string{"NewWordList (real map and loop bodies)", "WordList.Size", "WLRecipe.Generate for the readout"},
		Simulated:   []string{"map visit order in NewWordList (H4)", "word index order (H3)", "order and multiplicity of the caller's input", "crypto/rand.Reader (choice tape forcing each index)"},
		Gen: func(seed uint64, tier string) interface{} {
			r := Sub(seed, "config")
			s := &C10Spec{Words: genWords(r, listOpt{min: 0, max: 10, twins: 0.4, precap: 0.2, caseless: 0.15, dups: 0.3, emptyWord: 0.05}), Constructions: 8 + r.Intn(8), Native: 8, Seed: seed}
			if r.Chance(0.03) {
				s.Words = nil
			}
			if len(s.Words) > 0 && r.Chance(0.3) {
				// same length, different content
				alt := genWords(r, listOpt{min: len(s.Words), max: len(s.Words), twins: 0.3, precap: 0.2, caseless: 0.1, dups: 0.2})
				for len(alt) < len(s.Words) {
					alt = append(alt, alt[0])
				}
				s.Alt = alt[:len(s.Words)]
			}
			if r.Chance(0.004) {
				// more than 2^16 distinct words
				s.Shipped = "huge"
				s.Words = nil
				s.Constructions, s.Native = 1, 0
			}
			if r.Chance(0.02) {
				s.Shipped = pick(r, []string{"words", "syllables"})
				s.Words = nil
				s.Constructions = 1
				s.Native = 1
			}
			if tier == "thorough" {
				s.Constructions *= 3
				s.Native = 32
			}
			return s
		},
		Decode: decodeInto[C10Spec],
		Run:    runC10,
		Shrink: func(si interface{}) []interface{} {
			s := si.(*C10Spec)
			var out []interface{}
			for i := range s.Words {
				if len(s.Words) > 1 {
					n := *s
					n.Words = append(append([]string{}, s.Words[:i]...), s.Words[i+1:]...)
					out = append(out, &n)
				}
			}
			if s.Constructions > 4 {
				n := *s
				n.Constructions = 4
				out = append(out, &n)
			}
			return out
		},
	})
}

func hasTwinOrFixed(words []string) (twin, fixed bool) {
	set := strset{}
	for _, w := range words {
		set[w] = true
	}
	for w := range set {
		t := strings.Title(w)
		if t == w {
			fixed = true
		} else if set[t] {
			twin = true
		}
	}
	return
}

func runC08(c *Ctx, si interface{}) {
	s := si.(*C08Spec)
	if len(s.Words) == 0 {
		return
	}
	ml := modelList(s.Words)
	twin, fixed := hasTwinOrFixed(s.Words)
	r := Sub(s.Seed, "variants")
	type key struct {
		scheme string
		sep    int
	}
	first := map[key]float32{}
	firstDesc := map[key]string{}
	total := s.Constructions + s.Native
	for k := 0; k < total; k++ {
		in := variantInput(r, s.Words, k)
		ord := OrderSpec{Chars: "sorted", Words: pick(r, []string{"sorted", "reverse", "perm"}), Visit: visitModes[k%len(visitModes)], Seed: mix(s.Seed, "ord", k)}
		if k >= s.Constructions {
			ord.Visit = "native"
			ord.Words = "native"
			c.Count("native_order_constructions", 1)
		}
		curOrders = ord
		wl, err := spg.NewWordList(in)
		if err != nil || wl == nil {
			c.Violate("list-refused", "", "NewWordList(%q) failed: %v", in, err)
			return
		}
		c.Count("constructions", 1)
		for _, scheme := range append(append([]string{}, capSchemes...), "Random", "ONE") {
			for si, sep := range s.Seps {
				rec := spg.NewWLRecipe(s.Length, wl)
				rec.Capitalize = spg.CapScheme(scheme)
				if sep.Kind == "char" {
					rec.SeparatorChar = sep.Char
				} else {
					rec.SeparatorFunc = sep.fn()
				}
				sepEnt := 0.0
				if l := sep.law(); l != nil {
					sepEnt = l.Entropy
				}
				want := wlEntropyFormula(len(ml.Kept), ml.AllCap, s.Length, scheme, sepEnt)
				for rep := 0; rep < 2; rep++ {
					e := entropyOp(NewTape(TapeSpec{Mode: "choice", Seed: mix(s.Seed, k, rep), Default: "random"}), *rec)
					c.Eval(1)
					c.T(e.tkey(), scheme, si)
					if twin || fixed {
						c.Distinct(fmt.Sprint(brief1(s.Words)), len(s.Words), ord.Visit, scheme, si)
					}
					desc := fmt.Sprintf("construction %d from %q (visit order %s), scheme %s, separator %s, Length %d", k, brief1(in), ord.Visit, scheme, sep, s.Length)
					if e.Kind != "ok" {
						c.Violate("entropy-panic", "", "Entropy() %s: %s", e.brief(), desc)
						return
					}
					got := float32(e.F)
					if !f32close(float64(got), want, entTol(want)) {
						c.Violate("entropy-formula", "", "Entropy() = %v, the formula gives %.6f (kept %q, all capitalisable: %v): %s", got, want, brief1(ml.Kept), ml.AllCap, desc)
						return
					}
					kk := key{scheme, si}
					if f, ok := first[kk]; !ok {
						first[kk] = got
						firstDesc[kk] = desc
					} else if math.Float32bits(f) != math.Float32bits(got) {
						c.Violate("entropy-varies", "", "Entropy() = %v here but %v for the same words and recipe in [%s]: %s", got, f, firstDesc[kk], desc)
						return
					}
				}
			}
		}
	}
	if twin {
		c.Probe("input_with_title_cased_twin", 1)
	}
	if fixed {
		c.Probe("input_with_fixed_point_word", 1)
	}
	c.Probe("twin_visited_before_lower_case_form", int64(visitStats.twinBeforeLower))
	c.Probe("twin_visited_after_lower_case_form", int64(visitStats.twinAfterLower))
	visitStats.twinBeforeLower, visitStats.twinAfterLower = 0, 0
	c.Sample(map[string]interface{}{"words": brief1(s.Words), "kept": brief1(ml.Kept), "all_capitalisable": ml.AllCap, "constructions": total})
}

type C10Spec struct {
	Alt           []string `json:"alt,omitempty"` // a different input of the same length, constructed in place on the same backing array
	Words         []string `json:"words"`
	Shipped       string   `json:"shipped,omitempty"`
	Constructions int      `json:"constructions"`
	Native        int      `json:"native"`
	Seed          uint64   `json:"seed"`
}

func runC10(c *Ctx, si interface{}) {
	s := si.(*C10Spec)
	words := s.Words
	if s.Shipped != "" {
		words = shippedLists[s.Shipped]
	}
	if len(words) == 0 {
		withCap := make([]string, 0, 4)
		backing := []string{"left", "over"}
		for _, in := range [][]string{nil, {}, withCap, backing[:0]} {
			m := mark()
			wl, err := spg.NewWordList(in)
			_ = since(m)
			c.Eval(1)
			c.T(err, wl == nil)
			if err == nil || wl != nil {
				c.Violate("empty-accepted", "", "NewWordList(empty) returned list=%v err=%v; want nil list and an error", wl, err)
				return
			}
		}
		c.Probe("empty_input", 1)
		return
	}
	ml := modelList(words)
	mlMain, mlAlt := ml, modelList(s.Alt)
	twin, fixed := hasTwinOrFixed(words)
	r := Sub(s.Seed, "variants")
	total := s.Constructions + s.Native
	shared := make([]string, len(words)) // one backing array reused across constructions
	for k := 0; k < total; k++ {
		in := variantInput(r, words, k)
		ml = mlMain
		if len(s.Alt) == len(words) && len(s.Alt) > 0 {
			// construct in place on the same backing array, alternating between two different inputs
			src := words
			if k%2 == 1 {
				src = s.Alt
				ml = mlAlt
			}
			copy(shared, src)
			in = shared
			c.Probe("constructed_in_place_on_reused_backing_array", 1)
		}
		snap := append([]string{}, in...)
		ord := OrderSpec{Chars: "sorted", Words: pick(r, []string{"sorted", "reverse", "perm"}), Visit: visitModes[k%len(visitModes)], Seed: mix(s.Seed, "ord", k)}
		if k >= s.Constructions {
			ord.Visit = "native"
			ord.Words = "native"
			c.Count("native_order_constructions", 1)
		}
		curOrders = ord
		wl, err := spg.NewWordList(in)
		c.Eval(1)
		dup := len(in) != len(ml.Kept)
		if twin || fixed || dup {
			c.Distinct(fmt.Sprint(in), ord.Visit)
		}
		desc := fmt.Sprintf("construction %d from %q (visit order %s)", k, brief1(in), ord.Visit)
		if err != nil || wl == nil {
			c.Violate("list-refused", "", "NewWordList failed: %v: %s", err, desc)
			return
		}
		for i := range in {
			if i >= len(snap) || in[i] != snap[i] {
				c.Violate("input-modified", "", "the caller's slice was modified at %d: %s", i, desc)
				return
			}
		}
		if len(in) != len(snap) {
			c.Violate("input-modified", "", "the caller's slice changed length: %s", desc)
			return
		}
		if int(wl.Size()) != len(ml.Kept) {
			c.Violate("size", "", "Size() = %d, want %d kept words %q: %s", wl.Size(), len(ml.Kept), brief1(ml.Kept), desc)
			return
		}
		// cross-check through the accessor
		acc := spg.VerifWords(wl)
		as := append([]string{}, acc...)
		sort.Strings(as)
		if strings.Join(as, "\x00") != strings.Join(ml.Kept, "\x00") {
			c.Violate("kept-set", "", "kept words %q, want %q: %s", brief1(as), brief1(ml.Kept), desc)
			return
		}
		// readout through the public API: force every index on a one-word recipe
		if len(ml.Kept) <= 64 {
			rec := spg.NewWLRecipe(1, wl)
			seen := strset{}
			for idx := 0; idx < int(wl.Size()); idx++ {
				res := genOp(NewTape(TapeSpec{Mode: "choice", Choices: []uint32{uint32(idx)}, Default: "zero"}), *rec)
				c.Count("readout_generations", 1)
				if res.Kind != "ok" {
					c.Violate("readout", "", "one-word generation for index %d failed: %s: %s", idx, res.brief(), desc)
					return
				}
				atoms := res.P.Tokens().Atoms()
				w := ""
				if len(atoms) == 1 {
					w = atoms[0]
				} else if !(len(atoms) == 0 && ml.set[""]) { // the empty word yields no atom (known finding of C05)
					c.Violate("readout", "", "one-word generation for index %d gave atoms %q: %s", idx, atoms, desc)
					return
				}
				if !ml.set[w] {
					c.Violate("kept-set", "", "index %d yields %q which is not a kept word (%q): %s", idx, w, brief1(ml.Kept), desc)
					return
				}
				seen[w] = true
			}
			if len(seen) != len(ml.Kept) {
				c.Violate("kept-set", "", "the %d indices yield only %d distinct words %q, want %q: %s", wl.Size(), len(seen), seen.sorted(), brief1(ml.Kept), desc)
				return
			}
		}
	}
	if twin {
		c.Probe("input_with_title_cased_twin", 1)
	}
	if fixed {
		c.Probe("input_with_fixed_point_word", 1)
	}
	if s.Shipped != "" {
		c.Probe("shipped_list", 1)
	}
	c.Probe("twin_visited_before_lower_case_form", int64(visitStats.twinBeforeLower))
	visitStats.twinBeforeLower, visitStats.twinAfterLower = 0, 0
	c.Sample(map[string]interface{}{"input": brief1(words), "kept": brief1(ml.Kept), "constructions": total})
}

func brief1(w []string) []string {
	if len(w) > 14 {
		return append(append([]string{}, w[:14]...), fmt.Sprintf("...(%d)", len(w)))
	}
	return w
}
