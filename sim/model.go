package main

import (
	"fmt"
	"math"
	"math/big"
	"sort"
	"strings"

	"go.1password.io/spg"
)

// ---------------------------------------------------------------------------
// Reference models. Oracles only: nothing in spg is replaced by them. Written
// from the property statements with plain sorted slices and math/big.
// ---------------------------------------------------------------------------

// class table as given in the C16 statement
var classTable = []struct {
	bit   uint32
	chars string
}{
	{1, "ABCDEFGHIJKLMNOPQRSTUVWXYZ"},
	{2, "abcdefghijklmnopqrstuvwxyz"},
	{4, "0123456789"},
	{8, "!@.-_*"},
	{16, "0O1Il5S"},
}

func runes(s string) []string {
	if s == "" {
		return nil
	}
	return strings.Split(s, "")
}

type strset map[string]bool

func (s strset) sorted() []string {
	out := make([]string, 0, len(s))
	for k := range s {
		out = append(out, k)
	}
	sort.Strings(out)
	return out
}

func classes(flags uint32) []string {
	var out []string
	for _, c := range classTable {
		if flags&c.bit != 0 {
			out = append(out, runes(c.chars)...)
		}
	}
	return out
}

// CharCfg is the JSON-able description of a character recipe.
type CharCfg struct {
	Length       int      `json:"length"`
	Allow        uint32   `json:"allow"`
	Require      uint32   `json:"require"`
	Exclude      uint32   `json:"exclude"`
	AllowChars   string   `json:"allow_chars,omitempty"`
	ExcludeChars string   `json:"exclude_chars,omitempty"`
	RequireSets  []string `json:"require_sets,omitempty"`
}

func (c CharCfg) Recipe() spg.CharRecipe {
	var rs []string
	if c.RequireSets != nil {
		rs = append([]string{}, c.RequireSets...)
	}
	if c.viaConstructor() {
		// the documented constructor, then every field set: whatever NewCharRecipe attaches to the
		// values it makes (and to their copies) is exercised for about half of the configurations
		r := spg.NewCharRecipe(c.Length)
		r.Allow, r.Require, r.Exclude = spg.CTFlag(c.Allow), spg.CTFlag(c.Require), spg.CTFlag(c.Exclude)
		r.AllowChars, r.ExcludeChars, r.RequireSets = c.AllowChars, c.ExcludeChars, rs
		return *r
	}
	return spg.CharRecipe{Length: c.Length, Allow: spg.CTFlag(c.Allow), Require: spg.CTFlag(c.Require),
		Exclude: spg.CTFlag(c.Exclude), AllowChars: c.AllowChars, ExcludeChars: c.ExcludeChars, RequireSets: rs}
}

// viaConstructor is a fixed function of the configuration, so that a replay builds the recipe the
// same way: struct literal or spg.NewCharRecipe.
func (c CharCfg) viaConstructor() bool {
	h := c.Length*31 + len(c.AllowChars)*7 + len(c.ExcludeChars)*5 + len(c.RequireSets)*3 + int(c.Allow^c.Require<<3^c.Exclude<<6)
	return h%2 == 0
}

func (c CharCfg) String() string {
	return fmt.Sprintf("{L:%d A:%d R:%d X:%d ac:%q xc:%q rs:%q}", c.Length, c.Allow, c.Require, c.Exclude, c.AllowChars, c.ExcludeChars, c.RequireSets)
}

// MChar is the model of a character recipe.
type MChar struct {
	L        int
	A        []string   // alphabet, sorted
	Aset     strset     //
	Req      [][]string // required sets after exclusion, non-empty ones only, each sorted
	Emptied  int        // required sets that exclusion (or nothing else) left empty
	Excluded strset
}

func modelChar(c CharCfg) *MChar {
	m := &MChar{L: c.Length, Aset: strset{}, Excluded: strset{}}
	for _, r := range runes(c.ExcludeChars) {
		m.Excluded[r] = true
	}
	for _, r := range classes(c.Exclude) {
		m.Excluded[r] = true
	}
	addReq := func(members []string) {
		s := strset{}
		for _, r := range members {
			if !m.Excluded[r] {
				s[r] = true
			}
		}
		if len(s) == 0 {
			m.Emptied++
			return
		}
		m.Req = append(m.Req, s.sorted())
		for r := range s {
			m.Aset[r] = true
		}
	}
	for _, rs := range c.RequireSets {
		if rs != "" {
			addReq(runes(rs))
		}
	}
	for _, cl := range classTable {
		if c.Require&cl.bit != 0 {
			addReq(runes(cl.chars))
		}
	}
	for _, r := range runes(c.AllowChars) {
		if !m.Excluded[r] {
			m.Aset[r] = true
		}
	}
	for _, r := range classes(c.Allow) {
		if !m.Excluded[r] {
			m.Aset[r] = true
		}
	}
	m.A = m.Aset.sorted()
	return m
}

// SatisfiesTokens: the sequence of single-character strings is a valid password.
func (m *MChar) Satisfies(chars []string) (bool, string) {
	if len(chars) != m.L {
		return false, fmt.Sprintf("length %d, want %d", len(chars), m.L)
	}
	for _, c := range chars {
		if m.Excluded[c] {
			return false, fmt.Sprintf("excluded character %q present", c)
		}
		if !m.Aset[c] {
			return false, fmt.Sprintf("character %q not in alphabet", c)
		}
	}
	for j, rs := range m.Req {
		hit := false
		for _, c := range chars {
			i := sort.SearchStrings(rs, c)
			if i < len(rs) && rs[i] == c {
				hit = true
				break
			}
		}
		if !hit {
			return false, fmt.Sprintf("required set %d %q not hit", j, rs)
		}
	}
	return true, ""
}

// Count returns |S| by inclusion-exclusion over sub-families of the required
// sets: sum over T of (-1)^|T| * |A \ union(T)|^L.
func (m *MChar) Count() *big.Int {
	total := new(big.Int)
	if m.L < 0 {
		return total
	}
	k := len(m.Req)
	if k > 16 {
		panic("model: too many required sets")
	}
	L := big.NewInt(int64(m.L))
	for mask := 0; mask < 1<<uint(k); mask++ {
		removed := strset{}
		bits := 0
		for j := 0; j < k; j++ {
			if mask&(1<<uint(j)) != 0 {
				bits++
				for _, r := range m.Req[j] {
					removed[r] = true
				}
			}
		}
		base := big.NewInt(int64(len(m.A) - len(removed)))
		term := new(big.Int).Exp(base, L, nil)
		if bits%2 == 1 {
			total.Sub(total, term)
		} else {
			total.Add(total, term)
		}
	}
	return total
}

func (m *MChar) SpaceSize() *big.Int {
	return new(big.Int).Exp(big.NewInt(int64(len(m.A))), big.NewInt(int64(m.L)), nil)
}

// Enumerate calls f for every string of A^L (as a char slice, reused) with
// its validity. Caller must bound |A|^L.
func (m *MChar) Enumerate(f func(chars []string, ok bool)) {
	if m.L < 1 || len(m.A) == 0 {
		return
	}
	idx := make([]int, m.L)
	cur := make([]string, m.L)
	for {
		for i, j := range idx {
			cur[i] = m.A[j]
		}
		ok, _ := m.Satisfies(cur)
		f(cur, ok)
		p := m.L - 1
		for p >= 0 {
			idx[p]++
			if idx[p] < len(m.A) {
				break
			}
			idx[p] = 0
			p--
		}
		if p < 0 {
			return
		}
	}
}

// BruteCount counts S by enumeration (oracle self-check for Count()).
func (m *MChar) BruteCount() int64 {
	var n int64
	m.Enumerate(func(_ []string, ok bool) {
		if ok {
			n++
		}
	})
	return n
}

// SuccessProb = |S| / |A|^L as a rational (nil when the alphabet is empty).
func (m *MChar) SuccessProb() *big.Rat {
	sp := m.SpaceSize()
	if sp.Sign() == 0 {
		return nil
	}
	return new(big.Rat).SetFrac(m.Count(), sp)
}

func log2Big(x *big.Int) float64 {
	if x.Sign() <= 0 {
		return math.Inf(-1)
	}
	f := new(big.Float).SetInt(x)
	mant := new(big.Float)
	exp := f.MantExp(mant)
	mf, _ := mant.Float64()
	return math.Log2(mf) + float64(exp)
}

func log2Rat(r *big.Rat) float64 {
	return log2Big(r.Num()) - log2Big(r.Denom())
}

// ---------------------------------------------------------------------------
// M-draw: the canonical unbiased bounded draw named in the C01 statement.
// ---------------------------------------------------------------------------

// mdraw returns (index, accepted) for raw word v under bound n.
func mdraw(n, v uint32) (uint32, bool) {
	top := uint64(math.MaxUint32) - uint64(math.MaxUint32)%uint64(n) // largest multiple of n not exceeding 2^32-1
	if n&(n-1) == 0 {
		return v & (n - 1), true // 2^32 is a multiple of n: nothing needs rejecting
	}
	if uint64(v) >= top {
		return 0, false
	}
	return v % n, true
}

// ---------------------------------------------------------------------------
// M-list: word-list normalisation.
// ---------------------------------------------------------------------------

type MList struct {
	Kept   []string // sorted
	AllCap bool
	set    strset
}

func modelList(input []string) *MList {
	input = realWords(input)
	u := strset{}
	for _, w := range input {
		u[w] = true
	}
	drop := strset{}
	for w := range u {
		if c := strings.Title(w); c != w && u[c] {
			drop[c] = true
		}
	}
	m := &MList{AllCap: true, set: strset{}}
	for w := range u {
		if !drop[w] {
			m.set[w] = true
		}
	}
	m.Kept = m.set.sorted()
	for _, w := range m.Kept {
		if strings.Title(w) == w {
			m.AllCap = false
		}
	}
	return m
}

// premiseOK: no two kept entries share a title-cased form (C04/C06 premise;
// after normalisation "unless one of them is that form" cannot occur).
func (m *MList) premiseOK() bool {
	seen := strset{}
	for _, w := range m.Kept {
		c := strings.Title(w)
		if seen[c] {
			return false
		}
		seen[c] = true
	}
	// a kept word equal to the title form of another kept word cannot remain
	for _, w := range m.Kept {
		if c := strings.Title(w); c != w && m.set[c] {
			return false
		}
	}
	return true
}

// ---------------------------------------------------------------------------
// M-wl: exact law of a wordlist recipe over typed token sequences.
// ---------------------------------------------------------------------------

type Tok struct {
	V string `json:"v"`
	T int    `json:"t"` // 0 separator, 1 atom (the documented token types)
}

func tokKey(ts []Tok) string {
	var b strings.Builder
	for _, t := range ts {
		fmt.Fprintf(&b, "%d:%d:%s|", t.T, len(t.V), t.V)
	}
	return b.String()
}

// SepLaw is the law of one separator value.
type SepLaw struct {
	Vals    []string
	Probs   []*big.Rat
	Entropy float64 // entropy the separator function is documented to report
}

func constSep(s string) *SepLaw {
	return &SepLaw{Vals: []string{s}, Probs: []*big.Rat{big.NewRat(1, 1)}, Entropy: 0}
}

// recipeSepLaw: the separator is the password of a character recipe; its law
// is uniform over the recipe's satisfying strings (C02), entropy log2|S|.
func recipeSepLaw(c CharCfg, maxVals int) (*SepLaw, bool) {
	m := modelChar(c)
	cnt := m.Count()
	if cnt.Sign() <= 0 || !cnt.IsInt64() || cnt.Int64() > int64(maxVals) {
		return nil, false
	}
	sp := m.SpaceSize()
	if !sp.IsInt64() || sp.Int64() > 4_000_000 {
		return nil, false
	}
	law := &SepLaw{Entropy: log2Big(cnt)}
	p := new(big.Rat).SetFrac(big.NewInt(1), cnt)
	m.Enumerate(func(chars []string, ok bool) {
		if ok {
			law.Vals = append(law.Vals, strings.Join(chars, ""))
			law.Probs = append(law.Probs, p)
		}
	})
	return law, true
}

// wlLaw enumerates the exact output law: Length independent uniform picks
// from kept, a capitalisation set per scheme, an independent separator per gap.
func wlLaw(kept []string, L int, scheme string, sep *SepLaw) map[string]*big.Rat {
	law := map[string]*big.Rat{}
	n := len(kept)
	// capitalisation sets with probabilities
	type capset struct {
		mask uint64
		p    *big.Rat
	}
	var caps []capset
	switch scheme {
	case "first":
		caps = []capset{{1, big.NewRat(1, 1)}}
	case "all":
		caps = []capset{{(1 << uint(L)) - 1, big.NewRat(1, 1)}}
	case "one":
		for i := 0; i < L; i++ {
			caps = append(caps, capset{1 << uint(i), big.NewRat(1, int64(L))})
		}
	case "random":
		for mk := uint64(0); mk < 1<<uint(L); mk++ {
			caps = append(caps, capset{mk, big.NewRat(1, 1<<uint(L))})
		}
	default:
		caps = []capset{{0, big.NewRat(1, 1)}}
	}
	widx := make([]int, L)
	sidx := make([]int, L) // only L-1 used
	pw := new(big.Rat).SetFrac(big.NewInt(1), new(big.Int).Exp(big.NewInt(int64(n)), big.NewInt(int64(L)), nil))
	for {
		// iterate separators
		for i := range sidx {
			sidx[i] = 0
		}
		for {
			ps := new(big.Rat).Set(pw)
			for g := 0; g < L-1; g++ {
				ps.Mul(ps, sep.Probs[sidx[g]])
			}
			for _, cs := range caps {
				ts := make([]Tok, 0, 2*L)
				for i := 0; i < L; i++ {
					w := kept[widx[i]]
					if cs.mask&(1<<uint(i)) != 0 {
						w = strings.Title(w)
					}
					ts = append(ts, Tok{w, 1})
					if i < L-1 {
						if s := sep.Vals[sidx[i]]; s != "" {
							ts = append(ts, Tok{s, 0})
						}
					}
				}
				k := tokKey(ts)
				p := new(big.Rat).Mul(ps, cs.p)
				if old, ok := law[k]; ok {
					old.Add(old, p)
				} else {
					law[k] = p
				}
			}
			g := L - 2
			for g >= 0 {
				sidx[g]++
				if sidx[g] < len(sep.Vals) {
					break
				}
				sidx[g] = 0
				g--
			}
			if g < 0 {
				break
			}
		}
		p := L - 1
		for p >= 0 {
			widx[p]++
			if widx[p] < n {
				break
			}
			widx[p] = 0
			p--
		}
		if p < 0 {
			break
		}
	}
	return law
}

// wlEntropyFormula is the C08 statement's formula.
func wlEntropyFormula(size int, allCap bool, L int, scheme string, sepEnt float64) float64 {
	e := float64(L) * math.Log2(float64(size))
	if allCap {
		switch scheme {
		case "random":
			e += float64(L)
		case "one":
			e += math.Log2(float64(L))
		}
	}
	e += float64(L-1) * sepEnt
	return e
}

// ---------------------------------------------------------------------------
// M-tok: the index format as documented in the C11 statement.
// ---------------------------------------------------------------------------

func charLen(s string) int { return len(runes(s)) }

// mtokKind: 0 character, 1 all-atom, 2 alternating, 3 full.
func mtokKind(ts []Tok) int {
	allAtoms, allOne := true, true
	for _, t := range ts {
		if t.T != 1 {
			allAtoms = false
		}
		if charLen(t.V) != 1 {
			allOne = false
		}
	}
	if len(ts) > 0 && allAtoms && allOne {
		return 0
	}
	if len(ts) > 0 && allAtoms {
		return 1
	}
	if len(ts)%2 == 1 {
		alt := true
		hasSep := false
		for i, t := range ts {
			want := 1
			if i%2 == 1 {
				want = 0
				hasSep = true
			}
			if t.T != want {
				alt = false
			}
		}
		if alt && hasSep {
			return 2
		}
	}
	return 3
}

// mtokIndexLen is the documented size of the index.
func mtokIndexLen(ts []Tok) int {
	switch mtokKind(ts) {
	case 0:
		return 1
	case 1, 2:
		return len(ts) + 1
	}
	return 2*len(ts) + 1
}

// f32close: two float32-precision values agree within tol.
func f32close(a, b float64, tol float64) bool {
	if math.IsInf(a, 0) || math.IsInf(b, 0) || math.IsNaN(a) || math.IsNaN(b) {
		return (math.IsInf(a, 1) && math.IsInf(b, 1)) || (math.IsInf(a, -1) && math.IsInf(b, -1))
	}
	return math.Abs(a-b) <= tol
}

// entTol is the tolerance for comparing a float32 entropy H with an exact value.
func entTol(h float64) float64 {
	ulp := math.Abs(h) * math.Pow(2, -23)
	t := 4 * ulp
	if t < 1e-4 {
		t = 1e-4
	}
	return t
}
