#!/usr/bin/env python3
# Regenerates /verif/MANIFEST.json from the table below (kept in one place so the manifest is always valid).
import json, subprocess, os
HERE = os.path.dirname(os.path.abspath(__file__))
BASELINE_OFF = "cd /repo && GOFLAGS=-mod=mod GOPROXY=off GOSUMDB=off go test -json -vet=off -count=1 -timeout 25m ./..."
def hook_commits():
    try:
        out = subprocess.check_output(["git", "-C", "/repo", "log", "--format=%H %s"], text=True)
        return [l.split()[0] for l in out.splitlines() if " verif:" in " " + l.split(" ", 1)[1] or l.split(" ", 1)[1].startswith("verif")]
    except Exception:
        return []
CHECKS = json.load(open(os.path.join(HERE, "checks_table.json")))
man = {
    "version": 1,
    "setup_cmd": "cd /verif/sim && GOFLAGS=-mod=mod GOPROXY=off GOSUMDB=off GOTOOLCHAIN=local go build -tags verif -o /dev/null . && GOFLAGS=-mod=mod GOPROXY=off GOSUMDB=off GOTOOLCHAIN=local go build -tags verif -race -o /dev/null .",
    "hooks": {
        "guard": "verif",
        "enable": "go build -tags verif (the ./check wrapper builds /verif/sim, which replaces go.1password.io/spg by /repo, and /repo/cmd/opgen with this tag)",
        "baseline_off_cmd": BASELINE_OFF,
        "source_commits": hook_commits(),
        "add_only": True,
    },
    "engines": [{
        "name": "simcheck",
        "path": "/verif/sim",
        "serves_properties": [c["property_id"] for c in CHECKS["checks"]],
        "kind_free_text": "deterministic simulator for spg: seeded tape behind crypto/rand.Reader with read-fault plans, choice-tree sweeps, owned map-iteration orders, cooperative goroutine scheduler, simulated index byte store, output monitor, child-process runner for opgen; reference models as oracles",
    }],
    "checks": [],
    "not_applicable": CHECKS["not_applicable"],
    "notes": CHECKS.get("notes", ""),
}
for c in CHECKS["checks"]:
    pid = c["property_id"]
    man["checks"].append({
        "property_id": pid,
        "quick_cmd": "./check %s quick" % pid,
        "thorough_cmd": "./check %s thorough" % pid,
        "evidence_file": "/verif/evidence/%s.json" % pid,
        "replay_cmd_template": "./check replay {path}",
        "engine": "simcheck",
        "level_claimed": {"category": c["level"], "text": c["text"], "design_ref": c.get("design_ref", "DESIGN.md §4 " + pid)},
        "level_note": c["note"],
        "technique": c["technique"],
    })
json.dump(man, open(os.path.join(HERE, "MANIFEST.json"), "w"), indent=1)
print("MANIFEST.json written:", len(man["checks"]), "checks,", len(man["not_applicable"]), "not applicable")
