#!/bin/bash
# Determinism self-test (DESIGN.md 7.1): every check, several VERIF_SEED values, each executed in
# separate OS processes under different GOMAXPROCS values and worker counts; the order-independent
# digest of all episode transcripts (operation results, tape bytes consumed, captured output,
# schedules) must agree. usage: ./selftest.sh [seeds=6] [checks...]
set -u
export GOFLAGS=-mod=mod GOPROXY=off GOSUMDB=off GOTOOLCHAIN=local
here=$(cd "$(dirname "$0")" && pwd)
nseeds=${1:-6}; shift || true
checks=${*:-C01 C02 C03 C04 C05 C06 C08 C09 C10 C11 C12 C13 C14 C15 C17 C18}
scratch=$(mktemp -d /tmp/verif-selftest-XXXXXX); trap 'rm -rf "$scratch"' EXIT
export VERIF_SCRATCH=$scratch VERIF_ROOT=$here VERIF_OUTDIR=$scratch/out VERIF_SELFTEST=1
(cd $here/sim && go build -tags verif -o $scratch/simcheck . && go build -tags verif -race -o $scratch/simcheck-race .) || exit 2
(cd /repo && go build -tags verif -o $scratch/opgen ./cmd/opgen) || exit 2
bad=0; runs=0
for c in $checks; do
  for seed in $(seq 101 $((100+nseeds))); do
    ref=""
    for combo in "1 16" "4 5" "16 1" "2 16"; do
      set -- $combo
      out=$(VERIF_SEED=$seed VERIF_GOMAXPROCS=$1 VERIF_WORKERS=$2 $scratch/simcheck $c quick 2>&1); rc=$?
      d=$(echo "$out" | grep -o 'transcript=[0-9a-f]*' | tail -1)
      runs=$((runs+1))
      if [ $rc -ne 0 ] || [ -z "$d" ]; then echo "SELFTEST $c seed=$seed GOMAXPROCS=$1 workers=$2: exit $rc"; echo "$out" | tail -5; bad=1; continue; fi
      if [ -z "$ref" ]; then ref=$d; elif [ "$ref" != "$d" ]; then echo "SELFTEST NONDETERMINISM $c seed=$seed: $ref vs $d (GOMAXPROCS=$1 workers=$2)"; bad=1; fi
    done
  done
  echo "selftest $c: ok so far ($runs runs)"
done
[ $bad = 0 ] && echo "SELFTEST OK: $runs runs agree" || { echo "SELFTEST FAILED"; exit 1; }
