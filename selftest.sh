#!/bin/bash
# Determinism self-test (DESIGN.md 7.1): every check, several VERIF_SEED values, each executed in
# separate OS processes under different GOMAXPROCS values and worker counts; the order-independent
# digest of all episode transcripts (operation results, tape bytes consumed, captured output,
# schedules) must agree. usage: ./selftest.sh [seeds=6] [checks...]
set -u
export GOFLAGS=-mod=mod GOPROXY=off GOSUMDB=off GOTOOLCHAIN=local
here=$(cd "$(dirname "$0")" && pwd)
nseeds=${1:-6}; shift || true
checks=${*:-C01 C02 C03 C04 C05 C06 C08 C09 C10 C11 C12 C13 C14 C15 C17 C18}
scratch=$(mktemp -d /tmp/verif-selftest-XXXXXX); trap 'rm -rf "$scratch"' EXIT
export VERIF_SCRATCH=$scratch VERIF_ROOT=$here VERIF_OUTDIR=$scratch/out VERIF_SELFTEST=1
(cd $here/sim && go build -tags verif -o $scratch/simcheck . && go build -tags verif -race -o $scratch/simcheck-race .) || exit 2
(cd /repo && go build -tags verif -o $scratch/opgen ./cmd/opgen) || exit 2
bad=0; runs=0
for c in $checks; do
  for seed in $(seq 101 $((100+nseeds))); do
    ref=""
    for combo in "1 16" "4 5" "16 1" "2 16"; do
      set -- $combo
      out=$(VERIF_SEED=$seed VERIF_GOMAXPROCS=$1 VERIF_WORKERS=$2 $scratch/simcheck $c quick 2>&1); rc=$?
      d=$(echo "$out" | grep -o 'transcript=[0-9a-f]*' | tail -1)
      runs=$((runs+1))
      if [ $rc -ne 0 ] || [ -z "$d" ]; then echo "SELFTEST $c seed=$seed GOMAXPROCS=$1 workers=$2: exit $rc"; echo "$out" | tail -5; bad=1; continue; fi
      if [ -z "$ref" ]; then ref=$d; elif [ "$ref" != "$d" ]; then echo "SELFTEST NONDETERMINISM $c seed=$seed: $ref vs $d (GOMAXPROCS=$1 workers=$2)"; bad=1; fi
    done
  done
  echo "selftest $c: ok so far ($runs runs)"
done
# rare-condition probes: a probe stuck at zero means the workload or fault mix no longer reaches the
# situation it is there for (fails the selftest, not a property)
python3 - "$VERIF_OUTDIR/evidence" <<'PY' || bad=1
import json, sys, os
want = {
 'C01': ['raw_word_rejected'],
 'C02': ['config_with_rejected_first_candidates', 'swept_to_depth_2L_through_rejected_candidates', 'all_candidates_fail_stream', 'colliding_sibling_recipes_evaluated_first'],
 'C03': ['last_alphabet_index_drawn', 'generation_with_rejected_candidate', 'constant_choice_stream', 'all_candidates_fail_stream'],
 'C04': ['non_uniform_law_with_fixed_point_words'],
 'C05': ['last_index_drawn', 'empty_separator_from_function', 'length_1', 'shipped_list_walk', 'earlier_passwords_reinspected_after_other_recipe'],
 'C06': ['non_uniform_law_min_entropy_case', 'char_config_with_rejection_mass', 'length_128_or_more', 'alphabet_of_200_or_more_characters'],
 'C08': ['input_with_title_cased_twin', 'twin_visited_before_lower_case_form'],
 'C09': ['fault_at_last_read', 'fault_inside_separator_generation', 'fault_on_the_read_after_a_maximal_raw_word', 'dependence_on_source_checked'],
 'C10': ['input_with_title_cased_twin', 'constructed_in_place_on_reused_backing_array', 'empty_input'],
 'C11': ['multibyte_token_sequences', 'token_over_255_chars', 'token_254_or_255_chars'],
 'C13': ['all_attempts_fail_stream', 'success_on_last_permitted_attempt_stream', 'wordlist_recipe_without_list', 'wordlist_recipe_with_empty_list_value', 'exclusion_emptied_a_required_set'],
 'C14': ['preemption_possible_between_reset_and_refill_of_required_sets'],
 'C18': ['generation_with_rejected_candidates', 'exhausted_all_attempts', 'duplicate_word_notice_emitted'],
}
ok = True
for cid, probes in sorted(want.items()):
    p = os.path.join(sys.argv[1], cid + '.json')
    if not os.path.exists(p):
        continue
    got = json.load(open(p))['coverage'].get('rare_condition_probes', {})
    for pr in probes:
        if not got.get(pr):
            print('SELFTEST PROBE STUCK AT ZERO: %s %s' % (cid, pr)); ok = False
sys.exit(0 if ok else 1)
PY
[ $bad = 0 ] && echo "SELFTEST OK: $runs runs agree, probes reached" || { echo "SELFTEST FAILED"; exit 1; }
