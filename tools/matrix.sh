#!/bin/bash
# tools/matrix.sh <seed-dir>...   runs every check (quick) against each seeded change; prints one line per seed
export GOFLAGS=-mod=mod GOPROXY=off GOSUMDB=off GOTOOLCHAIN=local
ALL="C01 C02 C03 C04 C05 C06 C08 C09 C10 C11 C12 C13 C14 C15 C17 C18"
for d in "$@"; do
  d=$(cd "$d" && pwd)
  name=$(basename "$d")
  w=$(mktemp -d /tmp/seedmx-XXXXXX)
  git -C /repo archive HEAD | tar -x -C "$w"
  if ! (cd "$w" && patch -p1 --quiet < "$d/patch.diff"); then echo "MATRIX $name patch-failed"; rm -rf "$w"; continue; fi
  line="MATRIX $name"
  for c in ${CHECKS:-$ALL}; do
    out=$(cd /verif && VERIF_REPO="$w" VERIF_OUTDIR=/tmp/verif-alt-out/$name ./check $c quick 2>&1); rc=$?
    keys=$(echo "$out" | grep '^violation' | grep -o 'key=[^ ]*' | sort -u | sed 's/key=//' | paste -sd+)
    [ $rc -ne 0 ] && line="$line $c:$rc${keys:+($keys)}"
  done
  echo "$line"
  rm -rf "$w"
done
