#!/usr/bin/env python3
# prints the DESIGN.md section-12 table from /verif/seeded/*/meta.json
import json, glob, os, re
rows = []
for f in sorted(glob.glob('/verif/seeded/*/meta.json')):
    m = json.load(open(f))
    d = os.path.dirname(f)
    title = ''
    rd = os.path.join(d, 'README.md')
    if os.path.exists(rd):
        for l in open(rd):
            if l.startswith('#'):
                title = re.sub(r'^#+\s*', '', l).strip()
                title = re.sub(r'^C\d\d-\d\s*[:\-—]*\s*', '', title)
                break
    caught = ', '.join(m.get('quick_checks_that_report_a_violation', [])) or '-'
    rows.append('| %s | %s | %s |' % (m['id'], title.replace('|', '/')[:110], caught.replace('|', '/')))
print('| seeded change | what it is | quick checks reporting a VIOLATION (class keys) |')
print('|---|---|---|')
print('\n'.join(rows))
