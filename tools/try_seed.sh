#!/bin/bash
# tools/try_seed.sh <seed-dir> [checks...]
# Confirms a seeded change (patch.diff + demo) in a scratch copy of /repo HEAD and runs the given
# checks (default: the property the directory name starts with) against the changed copy.
# Nothing in /repo is touched; the scratch copy is removed afterwards.
set -u
export GOFLAGS=-mod=mod GOPROXY=off GOSUMDB=off GOTOOLCHAIN=local
d=$(cd "$1" && pwd); shift
name=$(basename "$d"); prop=${name%%-*}
checks=${*:-$prop}
tier=${TIER:-quick}
w=$(mktemp -d /tmp/seedtry-XXXXXX); trap 'rm -rf "$w"' EXIT
mkdir "$w/clean" "$w/mut"
git -C /repo archive HEAD | tar -x -C "$w/clean"
git -C /repo archive HEAD | tar -x -C "$w/mut"
if ! (cd "$w/mut" && git init -q . 2>/dev/null; patch -p1 --quiet < "$d/patch.diff") ; then echo "RESULT $name patch-does-not-apply"; exit 0; fi
rm -rf "$w/mut/.git"
if [ -n "${SKIP_CONFIRM:-}" ]; then
  res=""
  for c in $checks; do
    out=$(cd /verif && VERIF_REPO="$w/mut" ./check $c $tier 2>&1); rc=$?
    key=$(echo "$out" | grep '^violation' | grep -o 'key=[^ ]*' | head -1)
    res="$res $c:exit$rc${key:+($key)}"
  done
  echo "RESULT $name (confirmation skipped) checks:$res"; exit 0
fi
b1=ok; (cd "$w/mut" && go build ./... && go build -tags verif ./...) >/dev/null 2>&1 || b1=FAIL
t1=ok; (cd "$w/mut" && go test -vet=off -count=1 ./... ) >/dev/null 2>&1 || t1=FAIL
t2=ok; (cd "$w/mut" && go test -tags verif -vet=off -count=1 ./... ) >/dev/null 2>&1 || t2=FAIL
demo=none; dm=na; dc=na
rundemo() { # dir
  local dir=$1
  if [ -f "$d/demo_test.go" ]; then
    pkgdir=$dir; grep -q '^package main' "$d/demo_test.go" && pkgdir=$dir/cmd/opgen
    cp "$d/demo_test.go" "$pkgdir/zz_demo_test.go"
    fn=$(grep -o 'func Test[A-Za-z0-9_]*' "$d/demo_test.go" | sed 's/func //' | paste -sd'|')
    extra=""; grep -qi 'race' "$d/README.md" 2>/dev/null && [ "$prop" = C14 ] && extra="-race"
    (cd "$pkgdir" && go test $extra -vet=off -count=1 -run "^($fn)\$" . ) >"$w/demo.log" 2>&1; rc=$?
    rm -f "$pkgdir/zz_demo_test.go"; return $rc
  elif [ -f "$d/demo.sh" ]; then
    (cd "$dir" && bash "$d/demo.sh" "$dir") >"$w/demo.log" 2>&1; return $?
  fi
  return 99
}
rundemo "$w/mut"; r=$?; [ $r = 99 ] || { [ $r = 0 ] && dm=PASSES || dm=fails; }
rundemo "$w/clean"; r=$?; [ $r = 99 ] || { [ $r = 0 ] && dc=passes || dc=FAILS; }
res=""
for c in $checks; do
  out=$(cd /verif && VERIF_REPO="$w/mut" VERIF_ROOT_OVERRIDE=1 ./check $c $tier 2>&1); rc=$?
  key=$(echo "$out" | grep '^violation' | grep -o 'key=[^ ]*' | head -1)
  res="$res $c:exit$rc${key:+($key)}"
done
echo "RESULT $name build=$b1 tests=$t1 tests_verif=$t2 demo_with_change=$dm demo_clean=$dc checks:$res"
