#!/usr/bin/env python3
# tools/import_seed.py <seed-out-dir> <result-line-file> <matrix-file>
# Copies confirmed seeded changes into /verif/seeded/<id>/ with a meta.json.
import sys, os, re, json, shutil
src, resf, mxf = sys.argv[1:4]
res = {}
for l in open(resf):
    m = re.match(r'RESULT (\S+) build=(\S+) tests=(\S+) tests_verif=(\S+) demo_with_change=(\S+) demo_clean=(\S+)', l)
    if m: res[m.group(1)] = m.groups()[1:]
mx = {}
for l in open(mxf):
    if l.startswith('MATRIX '):
        p = l.split()
        mx[p[1]] = p[2:]
for name, (b, t, tv, dw, dc) in sorted(res.items()):
    d = os.path.join(src, name)
    confirmed = b == 'ok' and t == 'ok' and tv == 'ok' and dw == 'fails' and dc == 'passes'
    if not confirmed:
        print("not confirmed:", name, b, t, tv, dw, dc); continue
    out = os.path.join('/verif/seeded', name)
    os.makedirs(out, exist_ok=True)
    for f in ('patch.diff', 'demo_test.go', 'demo.sh', 'README.md'):
        if os.path.exists(os.path.join(d, f)): shutil.copy(os.path.join(d, f), os.path.join(out, f))
    readme = open(os.path.join(d, 'README.md')).read()
    needs = ''
    m = re.search(r'(?is)#+\s*what it needs[^\n]*\n(.*?)(\n#+\s|\Z)', readme)
    if m: needs = ' '.join(m.group(1).split())[:900]
    caught = [x for x in mx.get(name, []) if ':1' in x]
    inconclusive = [x for x in mx.get(name, []) if ':2' in x]
    meta = {
        "id": name, "breaks_property": name.split('-')[0],
        "origin": "fresh sub-agent given only the property text and its own scratch worktree of /repo",
        "needs_to_manifest": needs,
        "confirmed_by": {
            "builds_with_and_without_tag": b, "existing_tests_pass": t, "existing_tests_pass_with_tag": tv,
            "demo_with_change": dw, "demo_on_clean_tree": dc,
            "how": "tools/try_seed.sh: scratch copy of /repo HEAD + patch; go build ./... (both tag settings); go test -vet=off -count=1 ./... (both); demo copied into the package and run on the changed and the clean copy",
        },
        "quick_checks_that_report_a_violation": caught,
        "quick_checks_inconclusive_exit_2": inconclusive,
    }
    json.dump(meta, open(os.path.join(out, 'meta.json'), 'w'), indent=1)
    print("imported", name, "caught by", caught or "NOTHING")
