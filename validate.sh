#!/bin/bash
# validates MANIFEST.json and every evidence file against the schemas (tooling venv has jsonschema)
python3-vt - <<'PY'
import json, glob, jsonschema, sys
ok = True
try:
    jsonschema.validate(json.load(open('/verif/MANIFEST.json')), json.load(open('/root/.vp/MANIFEST.schema.json')))
    print("MANIFEST ok")
except Exception as e:
    print("MANIFEST INVALID", e); ok = False
es = json.load(open('/root/.vp/EVIDENCE.schema.json'))
for f in sorted(glob.glob('/verif/evidence/*.json')):
    try:
        jsonschema.validate(json.load(open(f)), es); print(f, "ok")
    except Exception as e:
        print(f, "INVALID", str(e)[:300]); ok = False
sys.exit(0 if ok else 1)
PY
